"""C20 - a truncated sketch file is never loaded as a sketch.

Crash-point enumeration (E3): for every class and shape, EVERY strict prefix of
the file written by save() (every byte offset 0..len-1) is handed to the class
loader and, for count-min files, to the module-level load(); each must raise.
The complete file must load and equal the saved sketch.  Each subject is also
run in a second history: save() onto a path that already holds a LONGER file
written by save() (a re-used file name) - the result is still "a file written by
save()", all of its prefixes must fail and it must load to the second sketch.
The truncated bytes are presented IN PLACE (at the very path that was loaded
successfully a moment ago) and, on a stride, under a name without the .npz
suffix next to the complete file of the same stem.
"""
import os
import shutil

from .. import sk as SK
from ..common import tmpdir, quiet_shm

PROP = "C20"
LEVEL = "fault_enumeration"


def _subjects(tier, seed):
    """(name, kind, ctor args, fill) - shapes chosen so that files are 0.6-20 kB."""
    s = seed % 7
    subj = [
        ("linear-a", "linear", (5 + s, 3)),
        ("log16-a", "log16", (7 + s, 2, 100000, 50)),
        ("log8-a", "log8", (33 + s, 3)),
        ("hh-a", "hh", (3 + s % 3, 2, 5)),
        ("hll-a", "hll", (7, 2**63 + 5 + s)),
    ]
    subj += [(n + "-over", k, a) for n, k, a in subj]
    if tier == "thorough":
        subj += [
            ("linear-b", "linear", (300 + s, 8)),
            ("log16-b", "log16", (1000 + s, 4)),
            ("log8-b", "log8", (1, 1, 300, 2)),
            ("hh-b", "hh", (40 + s, 4, 16, 0.01)),
            ("hll-b", "hll", (12, 0)),
            ("hh-c", "hh", (1, 1, 1)),
            ("hll-c", "hll", (16, 1)),
            ("linear-c", "linear", (4000 + s, 4)),
            ("log8-c", "log8", (9000 + s, 5, 10**6, 100)),
            ("hh-d", "hh", (300 + s, 3, 40)),
        ]
    return subj


def _bigger(kind, args):
    """A sketch of the same class whose file is clearly longer (for the 'save over an
    existing file' scenario)."""
    a = list(args)
    if kind == "hll":
        a[0] = min(16, a[0] + 3)
    else:
        a[0] = a[0] * 4 + 30
    return _build(kind, a)


def _build(kind, args):
    sk = SK.make(kind, *args)
    keys = [b"", b"\x00", b"abc", b"\xff\x80\x7f", b"key-%d" % len(args)] + [
        b"k%03d" % i for i in range(40)
    ]
    for i, k in enumerate(keys):
        sk.add(k, 1 + (i % 5))
    if kind != "hll":
        sk.n_added_records[1] = 17
    return sk


def _loaders(kind):
    import sketchnu.countmin as cm

    cls = SK.classes()[kind]
    out = [("class", cls.load)]
    if kind in ("linear", "log16", "log8"):
        out.append(("module", cm.load))
    return out


def _try_load(loader, path, shared=False):
    """Returns None if the loader raised, else a description of what it returned."""
    try:
        obj = loader(path, shared) if shared else loader(path)
    except Exception:
        return None
    desc = type(obj).__name__
    del obj
    return desc


def big_file(rep, d):
    """A file of about 1 MB (a table above any 'small file' special case): the complete file
    loads; then it is cut shorter and shorter IN PLACE (os.truncate): every offset of the last
    8 kB and every 4099th offset before that."""
    for kind, args in (("linear", [65536, 4]),) + ((("log16", [131072, 4]),) if rep.tier == "thorough" else ()):
        sk = SK.make(kind, *args)
        for i in range(50):
            sk.add(b"key-%d" % i, 1 + i)
        full = os.path.join(d, f"big-{kind}.npz")
        sk.save(full)
        n = os.path.getsize(full)
        case0 = {"kind": "big", "kind_": kind, "args": list(args)}
        for lname, loader in _loaders(kind):
            try:
                got = loader(full)
                if SK.persist_diff(sk, got):
                    rep.violation(dict(case0, cut=n), f"big {kind}: complete file loads to a different sketch")
                del got
            except Exception as e:
                rep.violation(dict(case0, cut=n), f"big {kind}: the complete {n}-byte file does not load: "
                                                  f"{type(e).__name__}: {e}")
        cuts = list(range(n - 1, max(n - 8193, 0), -1)) + list(range(max(n - 8193, 0), 0, -4099)) + [0]
        loaded = 0
        for cut in cuts:
            os.truncate(full, cut)
            for lname, loader in _loaders(kind):
                r = _try_load(loader, full)
                rep.evals()
                if r is not None:
                    loaded += 1
                    rep.violation(dict(case0, cut=cut, loader=lname),
                                  f"big {kind}: {lname} loader returned a {r} from the first {cut} of "
                                  f"{n} bytes (file cut in place)")
            rep.nontrivial((f"big-{kind}", cut))
        rep.part(f"big-{kind}", file_bytes=n, prefixes=len(cuts), loaded=loaded)


def run(rep):
    quiet_shm()
    d = tmpdir()
    try:
        total = 0
        for name, kind, args in _subjects(rep.tier, rep.seed):
            sk = _build(kind, args)
            full = os.path.join(d, f"{name}.npz")
            if name.endswith("-over"):
                # the path already holds a longer file written by save(): the second save()
                # must leave nothing of it behind
                _bigger(kind, args).save(full)
            sk.save(full)
            blob = open(full, "rb").read()
            n = len(blob)
            # the complete file loads to the saved sketch
            for lname, loader in _loaders(kind):
                for shared in (False, True):
                    rep.evals()
                    case = {"kind": "full", "subject": name, "loader": lname, "shared": shared,
                            "kind_": kind, "args": list(args)}
                    try:
                        got = loader(full, shared)
                    except Exception as e:
                        rep.violation(case, f"{name}: the complete file written by save() does not "
                                            f"load: {type(e).__name__}: {e}")
                        continue
                    diff = SK.persist_diff(sk, got)
                    if diff:
                        rep.violation(case, f"{name}: complete file loads to a different sketch ({diff})")
                    del got
            # the truncated file appears (1) IN PLACE: at the very path that was just loaded
            # successfully (a crash while rewriting it) and, on a stride, (2) under a name
            # without the .npz suffix next to the complete file with the same stem
            sibling = os.path.join(d, f"{name}.part")
            bad = 0
            for cut in range(n):
                where = [full] if cut % 7 else [full, sibling]
                for part in where:
                    with open(part, "wb") as f:
                        f.write(blob[:cut])
                    if part is sibling:
                        with open(full, "wb") as f:  # the complete file sits next to it
                            f.write(blob)
                    for lname, loader in _loaders(kind):
                        # shared-memory loads on a stride (each may create a segment)
                        for shared in (False, True) if cut % 16 == 0 else (False,):
                            r = _try_load(loader, part, shared)
                            rep.evals()
                            total += 1
                            if r is not None:
                                bad += 1
                                rep.violation(
                                    {
                                        "kind": "prefix",
                                        "subject": name,
                                        "loader": lname,
                                        "shared": shared,
                                        "cut": cut,
                                        "kind_": kind,
                                        "args": list(args),
                                        "where": "sibling" if part is sibling else "inplace",
                                    },
                                    f"{name}: {lname} loader returned a {r} from the first "
                                    f"{cut} of {n} bytes ("
                                    + ("file named *.part next to the complete *.npz"
                                       if part is sibling else "truncated in place after a successful load")
                                    + ")",
                                )
                rep.nontrivial((name, cut))
            with open(full, "wb") as f:
                f.write(blob)
            rep.part(name, kind=kind, args=list(args), file_bytes=n, prefixes=n, loaded=bad)
            rep.sample({"subject": name, "kind": kind, "file_bytes": n, "cut": n // 2})
        big_file(rep, d)
    finally:
        shutil.rmtree(d, ignore_errors=True)
    rep.set(
        "rule",
        "crash point = (class, shape, byte offset of truncation); every offset 0..len-1 of "
        "every subject is enumerated through every applicable loader; distinct non-trivial = "
        "distinct (subject, offset) pairs",
    )
    rep.assume("truncation is modelled as a clean prefix (no torn/garbled tail)")


def replay(case):
    quiet_shm()
    if case["kind"] == "big":
        d = tmpdir()
        try:
            kind, args = case["kind_"], case["args"]
            sk = SK.make(kind, *args)
            for i in range(50):
                sk.add(b"key-%d" % i, 1 + i)
            full = os.path.join(d, "big.npz")
            sk.save(full)
            n = os.path.getsize(full)
            if case["cut"] >= n:
                try:
                    got = dict(_loaders(kind))["class"](full)
                    return bool(SK.persist_diff(sk, got)), {"file_bytes": n}
                except Exception as e:
                    return True, {"complete_file_load_raised": type(e).__name__, "file_bytes": n}
            os.truncate(full, case["cut"])
            r = _try_load(dict(_loaders(kind))[case.get("loader", "class")], full)
            return r is not None, {"returned": r, "file_bytes": n, "cut": case["cut"]}
        finally:
            shutil.rmtree(d, ignore_errors=True)
    name, kind, args = case["subject"], case["kind_"], tuple(case["args"])
    d = tmpdir()
    try:
        sk = _build(kind, args)
        full = os.path.join(d, "f.npz")
        if name.endswith("-over"):
            _bigger(kind, args).save(full)
        sk.save(full)
        loader = dict(_loaders(kind))[case["loader"]]
        if case["kind"] == "full":
            try:
                got = loader(full, case["shared"])
            except Exception as e:
                return True, {"complete_file_load_raised": type(e).__name__}
            diff = SK.persist_diff(sk, got)
            return bool(diff), {"differs_in": diff}
        blob = open(full, "rb").read()
        for ln, ld in _loaders(kind):  # the complete file is loaded first, as in the check
            try:
                ld(full)
            except Exception:
                pass
        if case.get("where") == "sibling":
            part = os.path.join(d, "f.part")
        else:
            part = full
        with open(part, "wb") as f:
            f.write(blob[: case["cut"]])
        r = _try_load(loader, part, case["shared"])
        return r is not None, {"returned": r, "file_bytes": len(blob), "cut": case["cut"]}
    finally:
        shutil.rmtree(d, ignore_errors=True)
