"""C19 - a failing callback or dead worker never silently corrupts or hangs parallel_add.

E2 fault enumeration: the REAL parallel_add runs under the simulated spawn
context (vf/sched.py) with
  (1) EVERY fault vector in {ok, raise-before-touching, raise-after-updating}^k
      x EVERY assignment of the k items to w workers
  (2) EVERY single death: worker i exits (os._exit model, exit code 3) on the
      j-th item it takes, for all (i, j) and all assignments (also with exit status 1,
      SIGKILL and SIGTERM instead of 3; and callbacks raising an exception that
      carries no message) - including systems
      with more queue entries than the work queue holds (the filler is still
      blocked in put() when the worker dies) and a single worker (the last
      running worker dies)
  (2b) a death / a raising callback under EVERY single deviation from the default
      run-to-block schedule (the monitor wakes early, a sibling runs first, ...)
  (3) conformance: one real spawned run in which a worker calls os._exit(3) must
      end like its simulated replay (an exception, same type)
Oracle (raise): parallel_add returns; HLL registers contain every non-failed
item and nothing beyond the touched ones; cms/hh are within the C01/C03 bounds
for [non-failed, non-failed + failed-after]; n_records() == sum of the returns
of the successful items (distinct powers of two identify the set).
Oracle (death): parallel_add terminates with an exception, never with a result;
no deadlock, no hang within the step horizon.
"""
import itertools
import json
import os
import shutil
import subprocess
import sys

from ..common import MachineryError, quiet_shm, tmpdir, VERIF_DIR
from . import par_common as P

PROP = "C19"
LEVEL = "fault_enumeration"
NAMES = ("cms", "hh", "hll")
MODES = ("ok", "before", "after")


def exec_raise(case):
    items = P.make_items(case["k"], case.get("salt", 0))
    plan = {j: m for j, m in enumerate(case["plan"])}
    names = tuple(case.get("names", NAMES))
    ref = P.Reference(names)
    res = P.run_sim(items, case["w"], names, assign=case["assign"],
                    kwargs={"plan": plan, "state": {}}, want_objects=True,
                    choices=case.get("choices", ()))
    if res["error"] is not None:
        probs = [f"parallel_add did not return although only callbacks raised: "
                 f"{res['error'][0]}: {res['error'][1]}"]
    else:
        must = [it for it in items if plan[it["id"]] == "ok"]  # "bare"/"before": untouched
        may = [it for it in items if plan[it["id"]] in ("ok", "after")]
        recs = sum(int(it["ret"]) for it in must)
        probs = P.check_outcome(ref, res["outcome"], res["objects"], must, may, recs)
    res.pop("objects", None)
    return probs, res


def exec_death(case):
    items = P.make_items(case["k"], case.get("salt", 0))
    names = tuple(case.get("names", NAMES))
    code = case.get("code", 3)
    res = P.run_sim(items, case["w"], names, assign=case["assign"],
                    kwargs={"die": (case["die_worker"], case["die_at"], "sim", code), "state": {}},
                    want_objects=False, choices=case.get("choices", ()))
    if case["die_worker"] == -1:
        died = code in res["worker_exit"].values()
    else:
        died = res["worker_exit"].get(case["die_worker"]) == code
    probs = []
    if not died:
        return probs, res, False  # that worker never took a j-th item: nothing died
    if res["error"] is None:
        probs.append(f"worker {case['die_worker']} died (exit code {code}) on its item #{case['die_at']} "
                     f"but parallel_add returned a result as if nothing happened")
    elif res["error"][0] in ("SimDeadlock", "SimHang"):
        probs.append(f"worker {case['die_worker']} died and parallel_add never terminates: "
                     f"{res['error'][0]}: {res['error'][1][:200]}")
    return probs, res, True


def task(arg):
    kind, k, w, salt = arg
    quiet_shm()
    out = []
    n = nt = 0
    outcomes = set()
    if kind == "raise":
        for assign in itertools.product(range(w), repeat=k):
            for plan in itertools.product(MODES, repeat=k):
                case = dict(kind="raise", k=k, w=w, salt=salt, assign=list(assign), plan=list(plan))
                probs, res = exec_raise(case)
                n += 1
                if any(m != "ok" for m in plan):
                    nt += 1
                if res["outcome"] is not None:
                    o = res["outcome"]
                    outcomes.add((o["cms"]["n_records"], o["cms"]["n_added"]))
                if probs and len(out) < 3:
                    out.append((case, f"k={k} w={w} assign={list(assign)} faults={list(plan)}: {probs[0]}"))
    elif kind == "bare":
        # exactly one item raises an exception that carries NO message
        for assign in itertools.product(range(w), repeat=k):
            for bad in range(k):
              # "bare": no message at all; "oserr": args that are not all strings (errno, text),
              # "intarg": a single non-string argument
              for how in ("bare", "oserr", "intarg"):
                plan = ["ok"] * k
                plan[bad] = how
                case = dict(kind="raise", k=k, w=w, salt=salt, assign=list(assign), plan=plan)
                probs, res = exec_raise(case)
                n += 1
                nt += 1
                if probs and len(out) < 3:
                    out.append((case, f"k={k} w={w} assign={list(assign)}, item {bad} raises an "
                                      f"unusual exception ({how}): {probs[0]}"))
    else:
        codes = (3,) if kind == "death" else (1, -9, -15)
        for assign in itertools.product(range(w), repeat=k):
          for code in codes:
            for dw in range(w):
                for at in range(1, k + 1):
                    case = dict(kind="death", k=k, w=w, salt=salt, assign=list(assign),
                                die_worker=dw, die_at=at, code=code)
                    probs, res, died = exec_death(case)
                    n += 1
                    if died:
                        nt += 1
                        outcomes.add(res["error"][0] if res["error"] else "returned")
                    if probs and len(out) < 3:
                        out.append((case, f"k={k} w={w} assign={list(assign)}: {probs[0]}"))
    return dict(kind=kind, k=k, w=w, executions=n, faulty=nt, outcomes=sorted(map(str, outcomes))[:8],
                n_outcomes=len(outcomes)), out


def deviation_task(arg):
    """A death (or a raising callback) under every single deviation from run-to-block: the
    monitor may wake up early, a sibling may run first, the filler may lag behind ..."""
    kind, base = arg
    quiet_shm()
    out = []
    fn = exec_death if kind == "death" else exec_raise
    r0 = fn(dict(base))
    probs0, res0 = r0[0], r0[1]
    n = 1
    if probs0:
        return dict(executions=1, points=0), [(dict(base), probs0[0])]
    taken, points = res0["taken"], res0["points"]
    for i, opts in enumerate(points):
        for c in range(1, opts):
            case = dict(base, choices=list(taken[:i]) + [c])
            r = fn(case)
            n += 1
            if r[0] and len(out) < 3:
                out.append((case, f"{kind} k={base['k']} w={base['w']} assign={base['assign']} with a "
                                  f"schedule deviation at point {i} (choice {c} of {opts}): {r[0][0]}"))
    return dict(executions=n, points=len(points)), out


REAL_SCRIPT = r"""
import sys, json, os
sys.path.insert(0, %(verif)r)
from vf import common
common.import_sketchnu()
from vf.checks import par_common as P
import sketchnu.helpers as H
if __name__ == "__main__":
    spec = json.loads(sys.argv[1])
    items = P.make_items(spec["k"], spec["salt"])
    try:
        r = H.parallel_add(list(range(len(items))), P.cb_update, n_workers=spec["w"],
                           **P.arg_combo(("hll",)), table=items,
                           die=(spec["die_worker"], spec["die_at"], "real"), state={},
                           record_dir=spec["dir"])
        print("RESULT returned")
    except BaseException as e:
        print("RESULT raised", type(e).__name__)
"""


def real_start(spec):
    d = tmpdir()
    spec = dict(spec, dir=d)
    script = os.path.join(d, "real_die.py")
    with open(script, "w") as f:
        f.write(REAL_SCRIPT % {"verif": VERIF_DIR})
    p = subprocess.Popen([sys.executable, script, json.dumps(spec)], stdout=subprocess.PIPE,
                         stderr=subprocess.STDOUT, cwd=d,
                         env=dict(os.environ, NUMBA_NUM_THREADS="2"))
    return p, spec


def real_finish(p, spec, rep):
    try:
        try:
            out, _ = p.communicate(timeout=1800)
        except subprocess.TimeoutExpired:
            p.kill()
            rep.violation(dict(kind="real-death", **{k: v for k, v in spec.items() if k != "dir"}),
                          "real spawned parallel_add with a worker calling os._exit(3) did not "
                          "terminate within 1800 s")
            return
        line = [l for l in out.decode().splitlines() if l.startswith("RESULT")]
        if not line:
            raise MachineryError("real death run produced no verdict: " + out.decode()[-500:])
        real = line[-1].split()[1:]
        assign = [None] * spec["k"]
        for w in range(spec["w"]):
            f = os.path.join(spec["dir"], f"w{w}.log")
            if os.path.exists(f):
                for l in open(f):
                    assign[int(l)] = w
        taken = [a for a in assign if a is not None]
        if not taken:
            raise MachineryError("real death run: no worker recorded an item: " + out.decode()[-400:])
        # items nobody recorded were never delivered (everybody was dead): in the replay they
        # go to a worker that is gone, i.e. to whoever is left
        case = dict(kind="death", k=spec["k"], w=spec["w"], salt=spec["salt"], names=["hll"],
                    assign=[a if a is not None else taken[0] for a in assign],
                    die_worker=spec["die_worker"], die_at=spec["die_at"])
        probs, res, died = exec_death(case)
        sim = ["returned"] if res["error"] is None else ["raised", res["error"][0]]
        rep.evals()
        rep.part("real-death", real=real, simulated=sim, recorded_assignment=assign)
        if not died:
            raise MachineryError("replay of the real death run: no simulated worker died")
        if real[0] == "returned":
            rep.violation(dict(case, real=True),
                          "REAL run: a worker called os._exit(3) and parallel_add returned a result")
        if real != sim:
            rep.violation(dict(case, real=True),
                          f"real spawned run ended {real} but its simulated replay ended {sim}: the "
                          f"simulated context does not conform")
        rep.set("real_runs_replayed", 1)
    finally:
        shutil.rmtree(spec["dir"], ignore_errors=True)
        for f in os.listdir("/dev/shm"):
            pass


def pool_size(tier):
    return 8 if tier == "quick" else 16


def run(rep):
    from ..pool import run_tasks

    quiet_shm()
    salt = rep.seed % 5
    # die_worker = -1: whichever worker takes an item first dies on it (a named worker might
    # never receive an item in a real run - the other one can drain the queue first)
    real = real_start(dict(k=4, w=2, salt=salt, die_worker=-1, die_at=1))
    try:
        if rep.tier == "quick":
            jobs = [("raise", 3, 2, salt), ("raise", 4, 2, salt), ("raise", 2, 3, salt),
                    ("death", 4, 2, salt), ("death", 3, 3, salt), ("raise", 3, 1, salt),
                    ("death", 2, 1, salt),
                    # more entries than the work queue holds (3 per worker): the filler is still
                    # blocked in put() when the worker dies
                    ("death", 5, 1, salt), ("death", 7, 2, salt),
                    # other ways to die: exit status 1, SIGKILL, SIGTERM
                    ("codes", 3, 2, salt), ("bare", 3, 2, salt)]
        else:
            jobs = [("raise", 4, 2, salt), ("raise", 4, 3, salt), ("raise", 5, 2, salt),
                    ("raise", 3, 1, salt), ("death", 4, 3, salt), ("death", 5, 2, salt),
                    ("death", 4, 2, salt), ("death", 3, 1, salt), ("raise", 5, 3, salt),
                    ("death", 5, 1, salt), ("death", 7, 2, salt), ("codes", 4, 2, salt),
                    ("codes", 3, 3, salt), ("bare", 4, 2, salt), ("bare", 3, 3, salt)]
        res = run_tasks(__name__, "task", jobs)
        execs = 0
        for st, viol in res:
            rep.violations.extend(viol)
            execs += st["executions"]
            rep.nontrivial_n(st["faulty"])
            rep.add("outcomes_sum", st["n_outcomes"])
            rep.part(f"{st['kind']}-k{st['k']}-w{st['w']}", executions=st["executions"],
                     with_fault=st["faulty"], outcomes=st["outcomes"])
            print(f"  {st['kind']} k={st['k']} w={st['w']}: {st['executions']} executions, "
                  f"{st['faulty']} with an effective fault, outcomes {st['outcomes'][:4]}", flush=True)
        djobs = [("death", dict(kind="death", k=3, w=2, salt=salt, assign=[0, 1, 0], die_worker=1, die_at=1)),
                 ("death", dict(kind="death", k=4, w=1, salt=salt, assign=[0, 0, 0, 0], die_worker=0, die_at=2)),
                 ("raise", dict(kind="raise", k=3, w=2, salt=salt, assign=[1, 0, 1],
                                plan=["ok", "after", "before"]))]
        if rep.tier == "thorough":
            djobs += [("death", dict(kind="death", k=4, w=3, salt=salt, assign=[0, 1, 2, 1], die_worker=d_, die_at=1))
                      for d_ in range(3)]
        dres = run_tasks(__name__, "deviation_task", djobs)
        dn = 0
        for st, viol in dres:
            rep.violations.extend(viol)
            dn += st["executions"]
        rep.nontrivial_n(dn)
        rep.part("schedule-deviations", executions=dn, systems=len(djobs), bound=1)
        print(f"  <=1 schedule deviation under faults: {dn} executions", flush=True)
        execs += dn
        rep.evals(execs)
        real_finish(real[0], real[1], rep)
        real = None
    finally:
        if real is not None:
            if real[0].poll() is None:
                real[0].kill()
            shutil.rmtree(real[1]["dir"], ignore_errors=True)
    rep.sample({"kind": "raise", "k": 4, "w": 2, "assign": [0, 1, 1, 0],
                "faults": ["ok", "after", "before", "ok"]})
    rep.sample({"kind": "death", "k": 4, "w": 2, "assign": [0, 1, 0, 1], "die_worker": 1, "die_at": 2})
    rep.set(
        "rule",
        "fault sequence = (assignment vector, per-item fault mode) or (assignment, dying worker, "
        "item ordinal); every element of the product is one complete execution of the real "
        "parallel_add under the simulated spawn context; distinct non-trivial = executions in "
        "which a fault actually occurred",
    )
    if execs < 300 and not rep.violations:
        raise MachineryError("C19 ran too few executions")


def replay(case):
    quiet_shm()
    if case.get("real"):
        return True, {"note": "real spawned run disagreed; rerun the check for the real part"}
    if case["kind"] == "raise":
        probs, res = exec_raise(case)
    else:
        probs, res, died = exec_death(case)
    return bool(probs), {"problems": probs[:3], "error": res.get("error"),
                         "worker_exit": res.get("worker_exit")}
