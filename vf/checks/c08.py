"""C08 - parallel_add gives the sequential result for every worker count and schedule.

E2: the REAL helpers.parallel_add / _fill_queue / _worker / parallel_merging /
_merge_worker run in-process under the simulated spawn context (vf/sched.py).
 (a) ALL assignments of k items to w workers (w^k vectors, FIFO fixes per-worker
     order), for each of the 7 non-empty combinations of cms/hh/hll arguments
     (cms as linear; log8/log16 in the exact reserved range)
 (b) merge-tree sweep: n_workers 1..9, every worker gets a private weighted item;
     and all 2^w "which workers got nothing" patterns for w <= 5
 (c) deviation-bounded exploration of every other scheduling point (<= 1
     deviation from run-to-block): same outcome as the default schedule
 (d) conformance: a real spawned parallel_add whose recorded (worker, item)
     assignment is replayed in the simulator; results must be bit-identical
 (e) items given as a generator (documented) - known finding F3
Oracle per execution: the call returns; HLL registers == sequential sketch;
n_added() == total multiplicity; n_records() == sum of callback returns; cms
within the C01 bounds, hh within the C03/C04 bounds w.r.t. the whole stream.
"""
import itertools
import json
import os
import shutil
import subprocess
import sys
import time

from ..common import MachineryError, quiet_shm, tmpdir, VERIF_DIR
from . import par_common as P

PROP = "C08"
LEVEL = "model_checking"
F3_SIG = "parallel_add/fill_queue_process.start/items=generator/TypeError:cannot-pickle"


def judge(res, ref, items, label):
    if res["error"] is not None:
        return [f"{label}: parallel_add did not return a result: {res['error'][0]}: {res['error'][1]}"]
    total = sum(int(i["ret"]) for i in items)
    return [f"{label}: {p}" for p in
            P.check_outcome(ref, res["outcome"], res["objects"], items, items, total)]


def exec_case(case):
    """Run one recorded case (dict) and return (problems, res)."""
    items = P.make_items(case["k"], case.get("salt", 0))
    names = tuple(case["names"])
    ref = P.Reference(names, case.get("cms_type", "linear"))
    res = P.run_sim(items, case["w"], names, assign=case.get("assign"),
                    choices=case.get("choices", ()), cms_type=case.get("cms_type", "linear"),
                    kwargs={"state": {}}, want_objects=True, order=case.get("order"),
                    cpu_count=case.get("cpu", 1))
    probs = judge(res, ref, items, "")
    if not probs and case.get("expect_outcome") is not None:
        if _norm(res["outcome"]) != case["expect_outcome"]:
            probs = ["a schedule deviation changed the outcome for the same assignment"]
    res["unrealised"] = False
    if not probs and case.get("assign") is not None and res["error"] is None:
        got = [w for j, w in sorted(res["delivered"]) if j < case["k"]]
        if got != list(case["assign"]):
            # the directed work queue could not impose the assignment (a worker left early);
            # judged at the end of the run: on a tree without violations this must not happen
            res["unrealised"] = True
            UNREALISED.append((list(case["assign"]), got))
    res.pop("objects", None)
    return probs, res


UNREALISED = []


def _norm(outcome):
    return json.loads(json.dumps(outcome, default=lambda b: b.hex() if isinstance(b, bytes) else str(b)))


def task(arg):
    """All assignments for one (k, w, names, cms_type)."""
    k, w, names, cms_type, salt = arg
    quiet_shm()
    UNREALISED.clear()
    out = []
    n = 0
    multi = 0
    outcomes = set()
    for assign in itertools.product(range(w), repeat=k):
        case = dict(k=k, w=w, names=list(names), cms_type=cms_type, salt=salt, assign=list(assign))
        probs, res = exec_case(case)
        n += 1
        if len(set(assign)) > 1:
            multi += 1
        if res["outcome"] is not None:
            outcomes.add(json.dumps(_norm(res["outcome"]), sort_keys=True))
        if probs and len(out) < 3:
            out.append((case, f"k={k} w={w} {'+'.join(names)}({cms_type}) assign={list(assign)}: {probs[0]}"))
    return dict(k=k, w=w, names=names, cms_type=cms_type, executions=n, multi=multi,
                outcomes=len(outcomes), unrealised=len(UNREALISED)), out


def order_task(arg):
    """All orders of the item list x all assignments (per-worker order follows the list)."""
    k, w, names, salt = arg
    quiet_shm()
    out = []
    n = 0
    for order in itertools.permutations(range(k)):
        for assign in itertools.product(range(w), repeat=k):
            case = dict(k=k, w=w, names=list(names), salt=salt, assign=list(assign),
                        order=list(order))
            probs, res = exec_case(case)
            n += 1
            if probs and len(out) < 3:
                out.append((case, f"k={k} w={w} order={list(order)} assign={list(assign)}: {probs[0]}"))
    return dict(k=k, w=w, executions=n), out


def tree_task(arg):
    """Merge-tree sweep for one n_workers."""
    w, salt = arg
    quiet_shm()
    out = []
    n = 0
    names = ("cms", "hh", "hll")
    patterns = [tuple(range(w))]
    if w <= 5:
        patterns = [tuple(i for i in range(w) if (mask >> i) & 1) for mask in range(1, 2**w)]
    for pat in patterns:
        k = len(pat)
        # the machine's core count is an environment answer: 1, 2 and "plenty"
        for cpu in ((1, 2, 64) if len(pat) == w else (1,)):
            case = dict(k=k, w=w, names=list(names), salt=salt, assign=list(pat), cpu=cpu)
            probs, res = exec_case(case)
            n += 1
            if probs and len(out) < 3:
                out.append((case, f"n_workers={w} (cpu_count={cpu}), items only to workers "
                                  f"{list(pat)}: {probs[0]}"))
    return dict(w=w, executions=n), out


def deviation_task(arg):
    """<= 1 deviation at every scheduling point for one assignment."""
    k, w, names, assign, salt, bound = arg
    quiet_shm()
    base = dict(k=k, w=w, names=list(names), salt=salt, assign=list(assign))
    probs, res = exec_case(base)
    out = []
    n = 1
    if probs:
        return dict(executions=1, points=0), [(base, probs[0])]
    expect = _norm(res["outcome"])
    taken, points = res["taken"], res["points"]
    frontier = [([], 0)]
    seen_points = len(points)
    for i, opts in enumerate(points):
        for c in range(1, opts):
            ch = list(taken[:i]) + [c]
            case = dict(base, choices=ch, expect_outcome=expect)
            p2, r2 = exec_case(case)
            n += 1
            if p2 and len(out) < 3:
                out.append((case, f"k={k} w={w} assign={list(assign)} deviation at point {i} "
                                  f"(choice {c} of {opts}): {p2[0]}"))
            if bound >= 2 and not p2:
                # second deviation strictly after the first
                t2, pts2 = r2["taken"], r2["points"]
                for i2 in range(i + 1, len(pts2), max(1, len(pts2) // 12)):
                    for c2 in range(1, pts2[i2]):
                        case2 = dict(base, choices=list(t2[:i2]) + [c2], expect_outcome=expect)
                        p3, _ = exec_case(case2)
                        n += 1
                        if p3 and len(out) < 3:
                            out.append((case2, f"two deviations ({i},{i2}): {p3[0]}"))
    return dict(executions=n, points=seen_points), out


# ---------------------------------------------------------------- conformance (real spawn)
REAL_SCRIPT = r"""
import sys, json, os
sys.path.insert(0, %(verif)r)
from vf import common
common.import_sketchnu()
from vf.checks import par_common as P
import sketchnu.helpers as H
if __name__ == "__main__":
    spec = json.loads(sys.argv[1])
    items = P.make_items(spec["k"], spec["salt"])
    names = tuple(spec["names"])
    r = H.parallel_add(list(range(len(items))), P.cb_update, n_workers=spec["w"],
                       **P.arg_combo(names), table=items, record_dir=spec["dir"], state={})
    out, objs = P.snapshot(r, names)
    def hx(o):
        if isinstance(o, bytes): return o.hex()
        if isinstance(o, tuple): return [hx(x) for x in o]
        if isinstance(o, dict): return {k: hx(v) for k, v in o.items()}
        return o
    json.dump(hx(out), open(os.path.join(spec["dir"], "result.json"), "w"))
    del r, objs
"""


def real_start(spec):
    d = tmpdir()
    spec = dict(spec, dir=d)
    script = os.path.join(d, "real_run.py")
    with open(script, "w") as f:
        f.write(REAL_SCRIPT % {"verif": VERIF_DIR})
    env = dict(os.environ, NUMBA_NUM_THREADS="2")
    p = subprocess.Popen([sys.executable, script, json.dumps(spec)], stdout=subprocess.PIPE,
                         stderr=subprocess.STDOUT, env=env, cwd=d)
    return p, spec


def real_finish(p, spec, rep):
    """Replay the recorded assignment in the simulator; results must be bit-identical."""
    try:
        out, _ = p.communicate(timeout=1500)
        d = spec["dir"]
        if p.returncode != 0 or not os.path.exists(os.path.join(d, "result.json")):
            raise MachineryError("real spawned parallel_add failed: " + out.decode()[-600:])
        real = json.load(open(os.path.join(d, "result.json")))
        assign = [None] * spec["k"]
        for w in range(spec["w"]):
            f = os.path.join(d, f"w{w}.log")
            if os.path.exists(f):
                for line in open(f):
                    assign[int(line)] = w
        if None in assign:
            raise MachineryError(f"real run did not record every item: {assign}")
        case = dict(k=spec["k"], w=spec["w"], names=spec["names"], salt=spec["salt"], assign=assign)
        probs, res = exec_case(case)
        simo = _hexify(res["outcome"])
        rep.evals()
        if probs:
            rep.violation(dict(case), f"replay of the real assignment {assign}: {probs[0]}")
        if simo != real:
            rep.violation(dict(case, real=real),
                          f"real spawned parallel_add (n_workers={spec['w']}, assignment {assign}) "
                          f"and its replay in the simulator differ: the simulated context does not "
                          f"conform to the implementation")
        rep.add("traces_validated_against_impl", 1)
        rep.part(f"real-w{spec['w']}-{'+'.join(spec['names'])}", assignment=assign, identical=simo == real)
        return assign
    finally:
        shutil.rmtree(spec["dir"], ignore_errors=True)


def _hexify(o):
    if isinstance(o, bytes):
        return o.hex()
    if isinstance(o, tuple) or isinstance(o, list):
        return [_hexify(x) for x in o]
    if isinstance(o, dict):
        return {k: _hexify(v) for k, v in o.items()}
    return o


def generator_probe(rep):
    """(e) documented input type: a generator."""
    items = P.make_items(3)

    def gen():
        yield from range(len(items))

    names = ("hll",)
    res = P.run_sim(items, 2, names, kwargs={"state": {}}, want_objects=True, items=gen())
    rep.evals()
    if res["error"] is not None:
        kind, msg = res["error"]
        sig = None
        if kind == "TypeError" and "pickle" in msg and "generator" in msg:
            sig = F3_SIG
        rep.violation({"generator": True}, f"parallel_add(items=<generator>) failed: {kind}: {msg}",
                      signature=sig)
    else:
        ref = P.Reference(names)
        probs = judge(res, ref, items, "generator input")
        if probs:
            rep.violation({"generator": True}, probs[0])
    res.pop("objects", None)


def iterator_probe(rep):
    """items given as a one-shot iterator that DOES pickle (iter(list)): if parallel_add
    accepts it, every item must still be processed exactly once."""
    items = P.make_items(4)
    names = ("cms", "hh", "hll")
    res = P.run_sim(items, 2, names, kwargs={"state": {}}, want_objects=True,
                    items=iter(list(range(len(items)))))
    rep.evals()
    if res["error"] is not None:
        if res["error"][0] != "TypeError":
            rep.violation({"iterator": True}, f"parallel_add(items=iter(list)) failed: {res['error']}")
    else:
        probs = judge(res, P.Reference(names), items, "iterator input")
        if probs:
            rep.violation({"iterator": True}, probs[0])
    res.pop("objects", None)


def pool_size(tier):
    return 8 if tier == "quick" else 16


def run(rep):
    from ..pool import run_tasks

    quiet_shm()
    salt = rep.seed % 5
    # (d) start the real spawned runs first; they take about a minute each
    reals = []
    specs = [dict(k=4, w=2, names=["hll"], salt=salt)]
    if rep.tier == "thorough":
        specs += [dict(k=5, w=3, names=["cms", "hh", "hll"], salt=salt),
                  dict(k=3, w=1, names=["cms"], salt=salt),
                  dict(k=6, w=5, names=["hh", "hll"], salt=salt)]
    for s in specs:
        reals.append(real_start(s))
    try:
        _explore(rep, salt, reals)
    finally:
        for p, spec in reals:
            if p.poll() is None:
                p.kill()
            shutil.rmtree(spec["dir"], ignore_errors=True)
        leftovers = [f for f in os.listdir("/dev/shm") if f.startswith("psm_")]
        rep.set("shm_segments_left_behind", len(leftovers))


def _explore(rep, salt, reals):
    from ..pool import run_tasks

    rep.set("states", 0)
    rep.set("transitions", 0)
    rep.set("traces_validated_against_impl", 0)
    # the explorer owns the nondeterminism: the same (assignment, choices) twice gives the
    # same scheduling points, deliveries and outcome
    for case in (dict(k=4, w=3, names=["cms", "hh", "hll"], salt=salt, assign=[2, 0, 1, 2]),
                 dict(k=3, w=2, names=["hh", "hll"], salt=salt, assign=[1, 1, 0], choices=[0, 0, 1])):
        obs = []
        for _ in range(2):
            try:
                probs, res = exec_case(dict(case))
            except RuntimeError as e:  # replay divergence on a bad choice index
                obs.append(("diverged", str(e)))
                continue
            obs.append((json.dumps(_norm(res["outcome"]), sort_keys=True), res["points"],
                        res["delivered"], probs))
        if obs[0] != obs[1]:
            raise MachineryError("the simulated scheduler is not deterministic")
    # (a)
    jobs = []
    if rep.tier == "quick":
        for names in P.ALL_COMBOS:
            jobs.append((4, 3, names, "linear", salt))
        jobs.append((3, 2, ("cms", "hll"), "log8", salt))
        jobs.append((3, 2, ("cms", "hh"), "log16", salt))
        jobs.append((5, 2, ("cms", "hh", "hll"), "linear", salt))
        jobs.append((3, 2, ("cms", "hll"), "linear", "heavy"))
    else:
        jobs.append((4, 3, ("cms", "hll"), "linear", "heavy"))
        for names in P.ALL_COMBOS:
            jobs.append((5, 3, names, "linear", salt))
            jobs.append((4, 4, names, "linear", salt))
        jobs.append((6, 4, ("cms", "hh", "hll"), "linear", salt))
        jobs.append((7, 2, ("cms", "hh", "hll"), "linear", salt))
        jobs.append((5, 3, ("cms", "hll"), "log8", salt))
        jobs.append((5, 3, ("cms", "hh"), "log16", salt))
    res = run_tasks(__name__, "task", jobs)
    execs = 0
    unreal = 0
    for st, viol in res:
        rep.violations.extend(viol)
        execs += st["executions"]
        unreal += st.get("unrealised", 0)
        rep.nontrivial_n(st["multi"])
        rep.add("outcomes_sum", st["outcomes"])
        rep.part(f"assign-k{st['k']}-w{st['w']}-{'+'.join(st['names'])}-{st['cms_type']}",
                 executions=st["executions"], distinct_outcomes=st["outcomes"])
    print(f"  (a) {execs} executions over {len(jobs)} (k, w, sketches) systems", flush=True)
    rep.set("assignments_not_realised", unreal)
    if unreal and not rep.violations:
        raise MachineryError(f"{unreal} assignment vectors could not be imposed although no "
                             f"execution violated the property")
    rep.set("states", execs)
    rep.set("transitions", execs)
    # (b)
    res = run_tasks(__name__, "tree_task", [(w, salt) for w in range(1, 10)])
    tn = 0
    for st, viol in res:
        rep.violations.extend(viol)
        tn += st["executions"]
        rep.part(f"merge-tree-w{st['w']}", executions=st["executions"])
    execs += tn
    print(f"  (b) merge-tree sweep: {tn} executions, n_workers 1..9", flush=True)
    # (a') every order of the item list x every assignment
    ojobs = [(3, 2, ("cms", "hh", "hll"), salt)] if rep.tier == "quick" else \
        [(4, 2, ("cms", "hh", "hll"), salt), (4, 3, ("hh", "hll"), salt), (3, 3, ("cms", "hh"), salt)]
    res = run_tasks(__name__, "order_task", ojobs)
    on = 0
    for st, viol in res:
        rep.violations.extend(viol)
        on += st["executions"]
        rep.part(f"orders-k{st['k']}-w{st['w']}", executions=st["executions"])
    execs += on
    print(f"  (a') item orders x assignments: {on} executions", flush=True)
    # (f) "any callback": a callback that raises on exactly one item (every item x every
    #     assignment); n_records must be the sum of the returns of the items that succeeded
    from . import c19 as _c19

    fn = 0
    kf, wf = (3, 2) if rep.tier == "quick" else (4, 3)
    for bad in range(kf):
        for assign in itertools.product(range(wf), repeat=kf):
            plan = ["ok"] * kf
            plan[bad] = "before"
            case = dict(kind="raise", k=kf, w=wf, salt=salt, assign=list(assign), plan=plan)
            probs, _res = _c19.exec_raise(case)
            fn += 1
            if probs and fn >= 0:
                rep.violation(dict(case, via="c19"),
                              f"callback raising on item {bad}, assign={list(assign)}: {probs[0]}")
    execs += fn
    rep.part("raising-callback", executions=fn)
    # (c)
    if rep.tier == "quick":
        djobs = [(3, 2, ("cms", "hh", "hll"), (0, 1, 0), salt, 1),
                 (2, 3, ("hll",), (2, 0), salt, 1)]
    else:
        djobs = [(3, 2, ("cms", "hh", "hll"), a, salt, 1) for a in itertools.product(range(2), repeat=3)]
        djobs += [(3, 3, ("hh", "hll"), (0, 1, 2), salt, 1), (2, 2, ("hll",), (0, 1), salt, 2)]
    res = run_tasks(__name__, "deviation_task", djobs)
    dn = 0
    for st, viol in res:
        rep.violations.extend(viol)
        dn += st["executions"]
    rep.part("deviations", executions=dn, systems=len(djobs), bound=1 if rep.tier == "quick" else 2)
    execs += dn
    print(f"  (c) deviation exploration: {dn} executions", flush=True)
    rep.evals(execs)
    rep.set("states", execs)
    rep.set("transitions", execs)
    rep.set("executions", execs)
    # (e)
    generator_probe(rep)
    iterator_probe(rep)
    # (d)
    for p, spec in reals:
        real_finish(p, spec, rep)
    print(f"  (d) {len(reals)} real spawned run(s) replayed in the simulator", flush=True)
    rep.sample({"k": 4, "w": 3, "sketches": ["cms", "hh", "hll"], "assignment": [0, 2, 2, 1]})
    rep.sample({"merge_tree": {"n_workers": 5, "workers_with_items": [0, 3, 4]}})
    rep.set(
        "rule",
        "states = complete executions of the real parallel_add under the simulated spawn context: "
        "every assignment vector items->workers for the listed (k, w, sketch combination) systems, "
        "the merge-tree sweep, and every single deviation from run-to-block; non-trivial = "
        "executions in which at least two workers received items; traces_validated_against_impl = "
        "real spawned runs whose recorded assignment was replayed bit-identically",
    )
    rep.assume("simulated processes are serialised (one baton); scheduling points are the "
               "blocking multiprocessing operations - workers own disjoint shared-memory blocks")
    if execs < 300 and not rep.violations:
        raise MachineryError("C08 ran too few executions")


def replay(case):
    quiet_shm()
    if case.get("iterator"):
        from ..pool import SubReporter

        class R0(SubReporter):
            def evals(self, n=1):
                pass

        r0 = R0(max_violations=10)
        iterator_probe(r0)
        return bool(r0.violations), {"problems": [m for _, m in r0.violations]}
    if case.get("generator"):
        from ..pool import SubReporter

        class R(SubReporter):
            def evals(self, n=1):
                pass

        r = R(max_violations=10)
        generator_probe(r)
        return bool(r.violations), {"problems": [m for _, m in r.violations]}
    if case.get("via") == "c19":
        from . import c19 as _c19

        probs, res = _c19.exec_raise(case)
        return bool(probs), {"problems": probs[:3]}
    if "real" in case:
        probs, res = exec_case({k: v for k, v in case.items() if k != "real"})
        simo = _hexify(res["outcome"])
        return simo != case["real"] or bool(probs), {"problems": probs}
    probs, res = exec_case(case)
    return bool(probs), {"problems": probs[:3], "delivered": res["delivered"],
                         "worker_exit": res["worker_exit"]}
