"""C01 - linear count-min: true <= estimate <= collision bound on every history.

E1 (explicit-state BFS over real CountMinLinear objects, vf/checks/cm_common.py)
with reference model M2 (vf/models/cm.py).  Alphabet chosen by probing for a
non-trivial collision structure; events add / add_ngram / merge / save+load on
2..4 sketches; multiplicities adjacent to and beyond 2^32-1.
"""
import shutil

from ..bfs import merge_stats
from ..common import tmpdir, MachineryError
from . import cm_common as C

PROP = "C01"
LEVEL = "model_checking"
MODES = ("bounds",)


def configs(tier, seed):
    big = [1, 2**32 - 2, 2**40]
    ng = [[b"\x00\x00\x00", 1], [b"\xff\x80\x7f", 2]]
    out = []
    if tier == "quick":
        for w, d in [(1, 1), (2, 2), (3, 2), (2, 3)]:
            out.append(dict(kind="linear", args=[w, d], S=2, mults=big, ngrams=ng, depth=4))
        out.append(dict(kind="linear", args=[2, 2], S=3, mults=[1, 2**32 - 2], ngrams=[], depth=3))
        # sketches living in shared memory, odd table size (bookkeeping counters unaligned)
        out.append(dict(kind="linear", args=[3, 3], S=2, mults=[1, 5], ngrams=[], depth=3, shared=True))
        out.append(dict(kind="linear", args=[5, 1], S=2, mults=[1, 2**32 - 2], ngrams=ng[:1], depth=3,
                        shared=True))
        # update(list) and update(one-shot iterable)
        out.append(dict(kind="linear", args=[2, 2], S=2, mults=[1], ngrams=[], depth=4, updates=True))
        out.append(dict(kind="linear", args=[2, 2], S=4, mults=[2**32 - 2], ngrams=[], depth=3,
                        saveload=False))
    else:
        for w, d in [(1, 1), (2, 2), (3, 2), (2, 3), (1, 3), (3, 3), (4, 2), (1, 8), (2, 8)]:
            out.append(dict(kind="linear", args=[w, d], S=2, mults=big, ngrams=ng, depth=5))
        full = [0, 1, 3, 2**32 - 2, 2**32 - 1, 2**32, 2**40]
        for w, d in [(2, 2), (3, 2)]:
            out.append(dict(kind="linear", args=[w, d], S=2, mults=full, ngrams=ng, depth=4))
            out.append(dict(kind="linear", args=[w, d], S=3, mults=big, ngrams=ng[:1], depth=4))
        out.append(dict(kind="linear", args=[2, 2], S=4, mults=[1], ngrams=[], depth=5,
                        saveload=False))
        out.append(dict(kind="linear", args=[2, 2], S=4, mults=[2**32 - 2], ngrams=[], depth=4,
                        saveload=False))
        out.append(dict(kind="linear", args=[3, 3], S=2, mults=[1, 5], ngrams=[], depth=4, shared=True))
        out.append(dict(kind="linear", args=[5, 1], S=2, mults=big, ngrams=ng, depth=4, shared=True))
        out.append(dict(kind="linear", args=[2, 2], S=2, mults=[1, 3], ngrams=ng, depth=4, updates=True))
    return out


def pool_size(tier):
    return 9 if tier == "quick" else 16


def task(arg):
    """One configuration = one independent BFS (runs in a pool worker)."""
    cfg, seed, tier, modes = arg
    from ..pool import SubReporter
    from ..common import quiet_shm

    if cfg.get("shared"):
        quiet_shm()
    sub = SubReporter(seed, tier)
    scratch = tmpdir()
    try:
        cfg = C.with_alphabet(cfg, seed)
        st = C.CMSys(scratch, modes).explore(
            cfg, cfg["depth"], sub, time_cap=1500 if tier == "thorough" else 150
        )
    finally:
        shutil.rmtree(scratch, ignore_errors=True)
    return cfg, st, sub.violations


def run_modes(rep, modes, cfgs, floor=50):
    from ..pool import run_tasks

    res = run_tasks(__name__, "task", [(c, rep.seed, rep.tier, tuple(modes)) for c in cfgs])
    for cfg, st, viol in res:
        for case, msg in viol:
            case["modes"] = list(modes)
            rep.violations.append((case, msg))
        merge_stats(rep, C.label(cfg), cfg, st)
        print(f"  {C.label(cfg)}: D={st['depth']} states={st['states']} trans={st['transitions']} "
              f"nontrivial={st['nontrivial']} {st['wall_s']}s", flush=True)
    rep.set("closed", False)
    if not rep.violations and rep.cov.get("_nt_extra", 0) < floor:
        raise MachineryError("count-min exploration is vacuous: almost no colliding states")
    rep.assume("keys outside the probed alphabet behave like alphabet keys with the same "
               "collision pattern (kernels touch a key only through its hash columns)")


def run(rep):
    run_modes(rep, MODES, configs(rep.tier, rep.seed))
    rep.set(
        "rule",
        "state = full concrete state of every real sketch + true counts per key; BFS over "
        "add/add_ngram/merge/save+load events to the stated depth per configuration; "
        "non-trivial state = some sketch holds two keys with positive counts sharing a counter",
    )


def replay(case):
    if case["cfg"].get("shared"):
        from ..common import quiet_shm

        quiet_shm()
    scratch = tmpdir()
    try:
        return C.CMSys(scratch, case.get("modes", MODES)).replay(case["cfg"], case["events"])
    finally:
        shutil.rmtree(scratch, ignore_errors=True)
