"""C01 - linear count-min: true <= estimate <= collision bound on every history.

E1 (explicit-state BFS over real CountMinLinear objects) with reference model
M2 (vf/models/cm.py).  Alphabet chosen by probing for a non-trivial collision
structure; events add / add_ngram / merge / save+load on 2..4 sketches.
"""
import os
import shutil

from .. import sk as SK
from ..bfs import E1, merge_stats
from ..common import U32, tmpdir, MachineryError
from ..models import cm as M2

PROP = "C01"
LEVEL = "model_checking"

NEVER = (b"never-added-1", b"\x00never")


def windows(x, n):
    if len(x) <= n:
        return [x]
    return [x[i : i + n] for i in range(len(x) - n + 1)]


class CMSys(E1):
    """S count-min sketches of one shape; model[s] = sorted (key, true count)."""

    name = "cm"
    kind = "linear"

    def __init__(self, scratch_dir):
        self.dir = scratch_dir
        self._probe = None

    # cfg: {"kind","args":[w,d,...],"S",,"keys":[..],"mults":[..],"ngrams":[[x,n]..],
    #       "saveload":bool}
    def factory(self):
        c = self.cfg
        return SK.make(c["kind"], *c["args"])

    def init(self, cfg):
        self.cfg = cfg
        self.depth = int(cfg["args"][1])
        self.width = int(cfg["args"][0])
        self._probe = M2.Probe(self.factory)
        work = [self.factory() for _ in range(cfg["S"])]
        model = tuple(() for _ in range(cfg["S"]))
        self.alpha = [bytes(k) for k in cfg["keys"]]
        return work, model

    def cols(self, key):
        return self._probe.cols(key)

    def events(self, model, depth):
        c = self.cfg
        S = c["S"]
        for s in range(S):
            for k in self.alpha:
                for v in c["mults"]:
                    yield ("add", s, k, v)
        for s in range(S):
            for x, n in c.get("ngrams", ()):
                yield ("ngram", s, bytes(x), n)
        for s in range(S):
            for t in range(S):
                if s != t:
                    yield ("merge", s, t)
        if c.get("saveload", True):
            for s in range(S):
                yield ("saveload", s)

    def apply(self, work, model, ev):
        m = [dict(x) for x in model]
        op = ev[0]
        if op == "add":
            _, s, k, v = ev
            work[s].add(k, v)
            m[s][k] = m[s].get(k, 0) + v
        elif op == "ngram":
            _, s, x, n = ev
            work[s].add_ngram(x, n)
            for w in windows(x, n):
                m[s][w] = m[s].get(w, 0) + 1
        elif op == "merge":
            _, s, t = ev
            work[s].merge(work[t])
            for k, v in m[t].items():
                m[s][k] = m[s].get(k, 0) + v
        elif op == "saveload":
            _, s = ev
            path = os.path.join(self.dir, "sl.npz")
            work[s].save(path)
            work[s] = type(work[s]).load(path)
        else:
            raise MachineryError(f"unknown event {ev}")
        return tuple(tuple(sorted(x.items())) for x in m), []

    def touched(self, ev):
        return (ev[1], ev[2]) if ev[0] == "merge" else (ev[1],)

    def universe(self, model):
        u = set(self.alpha) | set(NEVER)
        for x in model:
            for k, _ in x:
                u.add(k)
        return sorted(u)

    def oracle(self, work, model):
        probs = []
        uni = self.universe(model)
        cols = {k: self.cols(k) for k in uni}
        for s, sk in self.active(work):
            true = dict(model[s])
            # per (row, col) sums of true counts
            cell = {}
            for k, v in true.items():
                if v:
                    ck = cols[k]
                    for r in range(self.depth):
                        cell[(r, ck[r])] = cell.get((r, ck[r]), 0) + v
            for k in uni:
                q = int(sk.query(k))
                q2 = int(sk[k])
                lo = min(true.get(k, 0), U32)
                ck = cols[k]
                hi = min(min(cell.get((r, ck[r]), 0) for r in range(self.depth)), U32)
                if q != q2:
                    probs.append(f"sketch {s}: query({k!r})={q} but sketch[key]={q2}")
                if q < lo:
                    probs.append(
                        f"sketch {s}: estimate {q} of {k!r} is below min(true, 2^32-1) = {lo}"
                    )
                if q > hi:
                    probs.append(
                        f"sketch {s}: estimate {q} of {k!r} exceeds the collision bound {hi} "
                        f"(true {true.get(k, 0)})"
                    )
        return probs

    def nontrivial(self, work, model):
        # some sketch holds two keys with positive counts that share a counter
        for x in model:
            ks = [k for k, v in x if v]
            for i in range(len(ks)):
                for j in range(i + 1, len(ks)):
                    a, b = self.cols(ks[i]), self.cols(ks[j])
                    if any(a[r] == b[r] for r in range(self.depth)):
                        return True
        return False

    def outcome(self, work, model):
        return tuple(w.cms.tobytes() for w in work)


def configs(tier, seed):
    big = [1, 2**32 - 2, 2**40]
    ng = [[b"\x00\x00\x00", 1], [b"\xff\x80\x7f", 2]]
    shapes = [(1, 1), (2, 2), (3, 2), (2, 3)]
    out = []
    D = 4 if tier == "quick" else 5
    for w, d in shapes:
        out.append(dict(kind="linear", args=[w, d], S=2, mults=big, ngrams=ng, depth=D))
    if tier == "thorough":
        for w, d in [(1, 3), (3, 3), (4, 2), (1, 8), (2, 8)]:
            out.append(dict(kind="linear", args=[w, d], S=2, mults=big, ngrams=ng, depth=5))
        full = [0, 1, 3, 2**32 - 2, 2**32 - 1, 2**32, 2**40]
        for w, d in [(2, 2), (3, 2)]:
            out.append(dict(kind="linear", args=[w, d], S=2, mults=full, ngrams=ng, depth=4))
            out.append(dict(kind="linear", args=[w, d], S=3, mults=big, ngrams=ng[:1], depth=4))
        # merge trees over 4 sketches, one multiplicity
        out.append(dict(kind="linear", args=[2, 2], S=4, mults=[1], ngrams=[], depth=5,
                        saveload=False))
        out.append(dict(kind="linear", args=[2, 2], S=4, mults=[2**32 - 2], ngrams=[], depth=4,
                        saveload=False))
    else:
        out.append(dict(kind="linear", args=[2, 2], S=3, mults=[1, 2**32 - 2], ngrams=[], depth=3))
    return out


def with_alphabet(cfg, seed):
    """Choose the 3-key alphabet for this shape by probing the real sketch."""
    w, d = cfg["args"][0], cfg["args"][1]
    probe = M2.Probe(lambda: SK.make(cfg["kind"], *cfg["args"]))
    keys = M2.choose_alphabet(probe, w, d, M2.pool(seed))
    cfg = dict(cfg)
    cfg["keys"] = keys
    return cfg


def run_one(cfg, rep, scratch, cls=CMSys, time_cap=None):
    sysm = cls(scratch)
    depth = cfg["depth"]
    st = sysm.explore(cfg, depth, rep, time_cap=time_cap)
    return st


def pool_size(tier):
    return 6 if tier == "quick" else 16


def task(arg):
    """One configuration = one independent BFS (runs in a pool worker)."""
    cfg, seed, tier = arg
    from ..pool import SubReporter
    from ..common import StopExploration

    sub = SubReporter(seed, tier)
    scratch = tmpdir()
    st = None
    try:
        cfg = with_alphabet(cfg, seed)
        st = run_one(cfg, sub, scratch, time_cap=900 if tier == "thorough" else 150)
    finally:
        shutil.rmtree(scratch, ignore_errors=True)
    return cfg, st, sub.violations


def run(rep):
    from ..pool import run_tasks

    cfgs = configs(rep.tier, rep.seed)
    res = run_tasks(__name__, "task", [(c, rep.seed, rep.tier) for c in cfgs])
    for cfg, st, viol in res:
        for case, msg in viol:
            rep.violations.append((case, msg))
        merge_stats(rep, f"linear-{cfg['args']}-S{cfg['S']}-m{len(cfg['mults'])}", cfg, st)
        print(f"  {cfg['args']} S={cfg['S']} D={st['depth']} states={st['states']} "
              f"trans={st['transitions']} nontrivial={st['nontrivial']} {st['wall_s']}s",
              flush=True)
    rep.set("closed", False)
    rep.set(
        "rule",
        "state = full concrete state of every real sketch + true counts per key; BFS over "
        "add/add_ngram/merge/save+load events to the stated depth per configuration; "
        "non-trivial state = some sketch holds two keys with positive counts sharing a counter",
    )
    if not rep.violations and rep.cov.get("_nt_extra", 0) < 50:
        raise MachineryError("C01 exploration is vacuous: almost no colliding states")
    rep.assume("keys outside the probed alphabet behave like alphabet keys with the same "
               "collision pattern (kernels touch a key only through its hash columns)")


def replay(case):
    scratch = tmpdir()
    try:
        return CMSys(scratch).replay(case["cfg"], case["events"])
    finally:
        shutil.rmtree(scratch, ignore_errors=True)
