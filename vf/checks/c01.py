"""C01 - linear count-min: true <= estimate <= collision bound on every history.

E1 (explicit-state BFS over real CountMinLinear objects, vf/checks/cm_common.py)
with reference model M2 (vf/models/cm.py).  Alphabet chosen by probing for a
non-trivial collision structure; events add / add_ngram / merge / save+load on
2..4 sketches; multiplicities adjacent to and beyond 2^32-1.
"""
import shutil

from ..bfs import merge_stats
from ..common import tmpdir, MachineryError
from . import cm_common as C

PROP = "C01"
LEVEL = "model_checking"
MODES = ("bounds",)


def configs(tier, seed):
    big = [1, 2**32 - 2, 2**40]
    ng = [[b"\x00\x00\x00", 1], [b"\xff\x80\x7f", 2]]
    out = []
    if tier == "quick":
        for w, d in [(1, 1), (2, 2), (3, 2), (2, 3)]:
            out.append(dict(kind="linear", args=[w, d], S=2, mults=big, ngrams=ng, depth=4))
        out.append(dict(kind="linear", args=[2, 2], S=3, mults=[1, 2**32 - 2], ngrams=[], depth=3))
        # sketches living in shared memory, odd table size (bookkeeping counters unaligned)
        out.append(dict(kind="linear", args=[3, 3], S=2, mults=[1, 5], ngrams=[], depth=3, shared=True))
        out.append(dict(kind="linear", args=[5, 1], S=2, mults=[1, 2**32 - 2], ngrams=ng[:1], depth=3,
                        shared=True))
        # update(list) and update(one-shot iterable)
        out.append(dict(kind="linear", args=[2, 2], S=2, mults=[1], ngrams=[], depth=4, updates=True))
        out.append(dict(kind="linear", args=[2, 2], S=4, mults=[2**32 - 2], ngrams=[], depth=3,
                        saveload=False))
    else:
        for w, d in [(1, 1), (2, 2), (3, 2), (2, 3), (1, 3), (3, 3), (4, 2), (1, 8), (2, 8)]:
            out.append(dict(kind="linear", args=[w, d], S=2, mults=big, ngrams=ng, depth=5))
        full = [0, 1, 3, 2**32 - 2, 2**32 - 1, 2**32, 2**40]
        for w, d in [(2, 2), (3, 2)]:
            out.append(dict(kind="linear", args=[w, d], S=2, mults=full, ngrams=ng, depth=4))
            out.append(dict(kind="linear", args=[w, d], S=3, mults=big, ngrams=ng[:1], depth=4))
        out.append(dict(kind="linear", args=[2, 2], S=4, mults=[1], ngrams=[], depth=5,
                        saveload=False))
        out.append(dict(kind="linear", args=[2, 2], S=4, mults=[2**32 - 2], ngrams=[], depth=4,
                        saveload=False))
        out.append(dict(kind="linear", args=[3, 3], S=2, mults=[1, 5], ngrams=[], depth=4, shared=True))
        out.append(dict(kind="linear", args=[5, 1], S=2, mults=big, ngrams=ng, depth=4, shared=True))
        out.append(dict(kind="linear", args=[2, 2], S=2, mults=[1, 3], ngrams=ng, depth=4, updates=True))
    return out


def pool_size(tier):
    return 9 if tier == "quick" else 16


def task(arg):
    """One configuration = one independent BFS (runs in a pool worker)."""
    cfg, seed, tier, modes = arg
    from ..pool import SubReporter
    from ..common import quiet_shm

    if cfg.get("shared"):
        quiet_shm()
    sub = SubReporter(seed, tier)
    scratch = tmpdir()
    try:
        cfg = C.with_alphabet(cfg, seed)
        st = C.CMSys(scratch, modes).explore(
            cfg, cfg["depth"], sub, time_cap=1500 if tier == "thorough" else 150
        )
    finally:
        shutil.rmtree(scratch, ignore_errors=True)
    return cfg, st, sub.violations


def run_modes(rep, modes, cfgs, floor=50):
    from ..pool import run_tasks

    res = run_tasks(__name__, "task", [(c, rep.seed, rep.tier, tuple(modes)) for c in cfgs])
    for cfg, st, viol in res:
        for case, msg in viol:
            case["modes"] = list(modes)
            rep.violations.append((case, msg))
        merge_stats(rep, C.label(cfg), cfg, st)
        print(f"  {C.label(cfg)}: D={st['depth']} states={st['states']} trans={st['transitions']} "
              f"nontrivial={st['nontrivial']} {st['wall_s']}s", flush=True)
    rep.set("closed", False)
    if not rep.violations and rep.cov.get("_nt_extra", 0) < floor:
        raise MachineryError("count-min exploration is vacuous: almost no colliding states")
    rep.assume("keys outside the probed alphabet behave like alphabet keys with the same "
               "collision pattern (kernels touch a key only through its hash columns)")


BOUNDARY_V = [0, 1, 2, 2**16, 2**31 - 1, 2**31, 2**32 - 3, 2**32 - 2, 2**32 - 1, 2**32, 2**32 + 1,
              2**33, 2**40, 2**63, 2**64 - 1]
BOUNDARY_KEYS = [b"", b"\x00", b"k", bytes(range(64))]


def spell(v, how):
    """The multiplicity v spelled as another integer type (None if it does not fit)."""
    import numpy as np

    if how == "int":
        return v
    lim = {"uint64": 2**64, "int64": 2**63, "uint32": 2**32}[how]
    if v >= lim:
        return None
    return getattr(np, how)(v)


def boundary_case(kind_args, shared, key, c0, via, v):
    """One key alone in a real linear sketch, count c0, then ONE call adding multiplicity v
    through `via`.  Alone in the sketch the key's estimate must be exactly min(c0+v, 2^32-1)
    (lower bound = true count, upper bound = true count: nobody else is there)."""
    from .. import sk as SK

    MAX = 2**32 - 1
    sk = SK.make("linear", *kind_args, shared_memory=shared)
    if c0:
        sk.add(key, c0)
    if via == "add":
        sk.add(key, v)
    elif via == "dict":
        sk.update({key: v})
    elif via.startswith("add:"):
        v_ = spell(v, via[4:])
        sk.add(key, v_)
    elif via.startswith("dict:"):
        sk.update({key: spell(v, via[5:])})
    elif via == "list":
        sk.update([key] * v)
    elif via == "iter":
        sk.update(iter([key] * v))
    elif via == "tuple":
        sk.update(tuple([key] * v))
    want = min(c0 + v, MAX)
    return sk, want


def boundary_sweep(rep):
    """E3: every (start count) x (boundary multiplicity) x (entry point) x (key incl. the empty
    one) on a one-key sketch; estimate must be exact."""
    from .. import sk as SK
    from ..common import quiet_shm

    quiet_shm()
    MAX = 2**32 - 1
    n = 0
    for args, shared in (([1, 1], False), ([2, 2], False), ([3, 2], True)):
        for key in BOUNDARY_KEYS:
            for c0 in (0, 5, 2**32 - 3, 2**32 - 1):
                for via, vs in (("add", BOUNDARY_V), ("dict", BOUNDARY_V),
                                ("add:uint64", BOUNDARY_V), ("add:int64", BOUNDARY_V),
                                ("add:uint32", BOUNDARY_V), ("dict:uint64", BOUNDARY_V),
                                ("list", [0, 1, 3] + ([255, 256, 1024, 4095, 4096, 4097, 8192]
                                                      if c0 == 0 and len(key) <= 1 else [])),
                                ("tuple", [1, 3]), ("iter", [1, 3])):
                    for v in vs:
                        if ":" in via and spell(v, via.split(":")[1]) is None:
                            continue
                        case = {"part": "boundary", "args": args, "shared": shared, "key": key,
                                "c0": c0, "via": via, "v": v}
                        violated, obs = replay_boundary(case)
                        n += 1
                        rep.evals()
                        if violated:
                            rep.violation(case, f"linear{args} holding only {key[:8]!r} x{c0}: after "
                                                f"{via} of multiplicity {v} the estimate is "
                                                f"{obs['estimate']}, must be {obs['want']}")
            rep.nontrivial(("boundary", tuple(args), key))
    # n-gram documents: empty document, document shorter than / equal to / longer than n
    for doc, g in ((b"", 1), (b"", 3), (b"ab", 3), (b"abc", 3), (b"aaaa", 1), (b"aaaaa", 3),
                   (b"\x00" * 6, 2), (bytes(range(64)) * 2, 64),
                   # a byte re-appearing exactly n positions later with different bytes between
                   (b"abab", 2), (b"abca", 3), (b"xyxyxy", 2), (b"aabaab", 3), (b"abcabcab", 3),
                   (b"aab", 1), (b"abba", 2), (b"\x00a\x00a\x00", 2)):
        n += 1
        rep.evals()
        bad, obs = ngram_case(doc, g)
        if bad:
            rep.violation({"part": "boundary_ngram", "doc": doc, "n": g},
                          f"add_ngram({doc[:10]!r}.., {g}): {obs['problems'][0]}")
    rep.part("boundary_sweep", cases=n)
    return n


_NG_PROBE = []


def ngram_case(doc, g):
    """add_ngram(doc, g) on a fresh 64x4 linear sketch: every n-gram's estimate lies between its
    true count and the collision bound (probed cell ownership), nothing else was added."""
    from .. import sk as SK
    from ..models import cm as M2

    if not _NG_PROBE:
        _NG_PROBE.append(M2.Probe(lambda: SK.make("linear", 64, 4)))
    probe = _NG_PROBE[0]
    sk = SK.make("linear", 64, 4)
    sk.add_ngram(doc, g)
    grams = [doc] if len(doc) <= g else [doc[i:i + g] for i in range(len(doc) - g + 1)]
    true = {}
    for w in grams:
        true[w] = true.get(w, 0) + 1
    cols = {k: probe.cols(k) for k in true}
    probs = []
    for k, f in true.items():
        q = int(sk.query(k))
        hi = min(sum(f2 for k2, f2 in true.items() if cols[k2][r] == cols[k][r]) for r in range(4))
        if q < f:
            probs.append(f"estimate of {k[:8]!r} is {q} < true count {f}")
        elif q > hi:
            probs.append(f"estimate of {k[:8]!r} is {q} > collision bound {hi} (true {f})")
    if int(sk.n_added()) != len(grams):
        probs.append(f"n_added() = {int(sk.n_added())} after {len(grams)} n-grams")
    return bool(probs), {"problems": probs[:3]}


def replay_boundary(case):
    from ..common import quiet_shm

    if case["shared"]:
        quiet_shm()
    sk, want = boundary_case(case["args"], case["shared"], case["key"], case["c0"], case["via"],
                             case["v"])
    est = int(sk.query(case["key"]))
    return est != want, {"estimate": est, "want": want}


def run(rep):
    run_modes(rep, MODES, configs(rep.tier, rep.seed))
    n = boundary_sweep(rep)
    rep.add("transitions", n)
    rep.add("traces_validated_against_impl", n)
    rep.set(
        "rule",
        "state = full concrete state of every real sketch + true counts per key; BFS over "
        "add/add_ngram/merge/save+load events to the stated depth per configuration; "
        "non-trivial state = some sketch holds two keys with positive counts sharing a counter",
    )


def replay(case):
    if case.get("part") == "boundary":
        return replay_boundary(case)
    if case.get("part") == "boundary_ngram":
        return ngram_case(case["doc"], case["n"])
    if case["cfg"].get("shared"):
        from ..common import quiet_shm

        quiet_shm()
    scratch = tmpdir()
    try:
        return C.CMSys(scratch, case.get("modes", MODES)).replay(case["cfg"], case["events"])
    finally:
        shutil.rmtree(scratch, ignore_errors=True)
