"""C16 - shared-memory and attached sketches behave exactly like in-memory ones.

E1 by replay (shared-memory objects cannot be copied): for every class and a
set of shapes covering every alignment residue of the bookkeeping counters,
the system {owner (shared_memory=True), view attached through
attach_existing_shm, view attached through helpers.attach_shared_memory,
in-memory twin} is driven through EVERY event sequence up to depth D, each
event applied through one of the three handles (and to the twin); after every
event all handles and the twin must show identical tables, bookkeeping and
answers.  Then the handles are dropped in every order: dropping a view leaves
the owner's contents intact and the segment in place, dropping the owner
removes /dev/shm/<name>.  The same is done (to depth 2) for systems whose owner was
obtained through load(file, shared_memory=True) of a non-empty saved sketch.
Garbage-collector timing is an environment answer too: handles are also dropped
while a view of their table sits in an uncollected reference cycle.
"""
import copy
import itertools
import os

from .. import sk as SK
from ..common import quiet_shm, MachineryError

PROP = "C16"
LEVEL = "model_checking"
INF = 10**6
TYPE = {"linear": "cms", "log8": "cms", "log16": "cms", "hh": "hh", "hll": "hll"}
DRAWS = [0.0, 1.0 - 2.0**-53, 0.0, 0.4, 0.0, 0.0, 0.9, 0.0]


def shapes(tier, seed):
    out = []
    for w in range(1, 9):  # table bytes mod 8 = 1..8
        out.append(("log8", [w, 1, 1000, 2]))
    for w in (1, 2, 3, 4):  # 2,4,6,0
        out.append(("log16", [w, 1, 10**6, 2]))
    out.append(("log16", [3, 3]))
    # legal FALSY parameter values (num_reserved = 0: pure log counting)
    out.append(("log8", [3, 1, 1000, 0]))
    out.append(("log16", [3, 1, 10**6, 0]))
    for w, d in ((1, 1), (2, 1), (3, 3)):  # 4, 0, 4
        out.append(("linear", [w, d]))
    for L in range(1, 9):  # key area mod 4 = L mod 4, counters' offset (L+5) mod 8: all residues
        out.append(("hh", [1, 1, L]))
    out.append(("hh", [2, 2, 3]))
    out.append(("hh", [3, 2, 1]))
    out.append(("hll", [7, 0]))
    out.append(("hll", [8, 2**63 + 9 + seed % 7]))
    if tier == "thorough":
        out += [("log8", [5, 3]), ("log8", [7, 2, 300, 100]), ("log16", [5, 1]), ("linear", [5, 2]),
                ("hh", [3, 1, 5]), ("hh", [1, 3, 7]), ("hh", [5, 1, 2, 0.3]), ("hll", [16, 1])]
    return out


def alphabet(kind, args):
    if kind == "hh":
        L = args[2]
        return [b"a"[:L], (b"a\x00")[:L] if L > 1 else b"b", b"toolongkey-----"]
    return [b"", b"k1", b"\xff\x80"]


def events(kind, args):
    A = alphabet(kind, args)
    evs = []
    for h in range(3):
        evs.append(("add", h, A[0], 1))
        evs.append(("add", h, A[1], 3))
        evs.append(("ngram", h, A[2] + A[1], 2))
        evs.append(("mergeM", h))
    evs.append(("mergeH", 0, 1))
    evs.append(("mergeH", 2, 0))
    if kind == "hh":
        evs.append(("query", 1, None))
        evs.append(("query", 0, 0))
    return evs


def build(kind, args, via_load=False):
    from sketchnu.helpers import attach_shared_memory

    if via_load:
        # the owner comes from load(file, shared_memory=True) of a non-empty saved sketch
        import tempfile

        pre = SK.make(kind, *args)
        if hasattr(pre, "rand_nums"):
            SK.install_draws(pre, DRAWS)
        pre.add(alphabet(kind, args)[0], 2)
        pre.add(b"pre-only", 1)
        fd, path = tempfile.mkstemp(suffix=".npz", dir="/dev/shm")
        os.close(fd)
        try:
            pre.save(path)
            owner = SK.classes()[kind].load(path, True)
        finally:
            os.unlink(path)
    else:
        owner = SK.make(kind, *args, shared_memory=True)
    v1 = SK.make(kind, *args)
    v1.attach_existing_shm(owner.shm.name)
    v2 = attach_shared_memory(TYPE[kind], owner.args, owner.shm.name)
    twin = SK.make(kind, *args)
    if via_load:
        if hasattr(twin, "rand_nums"):
            SK.install_draws(twin, DRAWS)
        twin.add(alphabet(kind, args)[0], 2)
        twin.add(b"pre-only", 1)
    M = SK.make(kind, *args)
    A = alphabet(kind, args)
    if hasattr(M, "rand_nums"):
        SK.install_draws(M, DRAWS)
    M.add(A[1], 2)
    M.add(b"m-only", 1)
    if kind != "hll":
        M.n_added_records[1] = 3
    return [owner, v1, v2], twin, M


def act(sk, ev, handles, M, kind):
    if hasattr(sk, "rand_nums"):
        SK.install_draws(sk, DRAWS)
    op = ev[0]
    if op == "add":
        sk.add(ev[2], ev[3])
    elif op == "ngram":
        sk.add_ngram(ev[2], ev[3])
    elif op == "mergeM":
        sk.merge(M)
    elif op == "query":
        return sk.query(INF, ev[2])
    return None


def answers(sk, kind, uni):
    if kind == "hll":
        return (float(sk.query()),)
    if kind == "hh":
        out = []
        for k in uni:
            try:
                out.append(int(sk[k]))
            except ValueError:  # no value returned (not judged here; the deletion phase
                out.append(None)  # notices if the failed call pinned the segment)
        out = tuple(out)
        q = tuple(sorted((k, int(c)) for k, c in sk.query(INF, 0)))
        qd = tuple(sorted((k, int(c)) for k, c in sk.query(INF)))
        return (out, q, qd, int(sk.n_added()), int(sk.n_records()))
    return (tuple(float(sk.query(k)) for k in uni), int(sk.n_added()), int(sk.n_records()))


def observe(sk, kind, uni):
    return (SK.tables(sk), answers(sk, kind, uni))


def run_history(kind, args, evs, order, check_every=True, via_load=False):
    """Fresh objects, apply evs, compare after each event, then drop handles in
    `order`.  Returns a list of problem strings."""
    probs = []
    handles, twin, M = build(kind, args, via_load)
    if via_load:
        ref0 = observe(twin, kind, alphabet(kind, args) + [b"never", b"m-only", b"pre-only"])
        for hi, h in enumerate(handles):
            if observe(h, kind, alphabet(kind, args) + [b"never", b"m-only", b"pre-only"]) != ref0:
                probs.append(f"right after load(shared_memory=True) + attach: handle {hi} "
                             f"({'owner' if hi == 0 else 'view'}) differs from the saved sketch")
    name = handles[0].shm.name
    uni = alphabet(kind, args) + [b"never", b"m-only", b"pre-only"]
    try:
        for i, ev in enumerate(evs):
            op = ev[0]
            if op == "mergeH":
                # a handle merges another handle of the SAME block: the twin merges a copy of itself
                try:
                    handles[ev[1]].merge(handles[ev[2]])
                except Exception as e:  # noqa - two handles of one block always agree on every parameter
                    probs.append(f"step {i+1} {ev}: merging two handles of one block raised "
                                 f"{type(e).__name__}: {str(e)[:120]}")
                    break
                twin.merge(copy.deepcopy(twin))
            else:
                ea = eb = None
                ra = rb = None
                try:
                    ra = act(handles[ev[1]], ev, handles, M, kind)
                except Exception as e:  # noqa
                    ea = e
                try:
                    rb = act(twin, ev, handles, M, kind)
                except Exception as e:  # noqa
                    eb = e
                if (ea is None) != (eb is None) or (ea is not None and type(ea) is not type(eb)):
                    probs.append(f"step {i+1} {ev}: through the handle "
                                 f"{'raised ' + type(ea).__name__ + ': ' + str(ea)[:100] if ea else 'returned'}, "
                                 f"on the in-memory twin "
                                 f"{'raised ' + type(eb).__name__ if eb else 'returned'}")
                    break
                if ea is not None:
                    continue
                if op == "query" and sorted(ra) != sorted(rb):
                    probs.append(f"step {i+1} {ev}: handle answers {ra}, in-memory twin {rb}")
            if check_every or i == len(evs) - 1:
                ref = observe(twin, kind, uni)
                for hi, h in enumerate(handles):
                    got = observe(h, kind, uni)
                    if got != ref:
                        what = "tables" if got[0] != ref[0] else "answers"
                        probs.append(
                            f"step {i+1} {ev}: handle {hi} ({'owner' if hi == 0 else 'view'}) "
                            f"differs from the in-memory twin in {what}"
                        )
        # deletion phase
        for n, hi in enumerate(order):
            h = handles[hi]
            handles[hi] = None
            del h
            exists = os.path.exists("/dev/shm/" + name)
            if hi == 0:
                if exists:
                    probs.append(f"the /dev/shm segment still exists after the owner was dropped "
                                 f"(order {order})")
            else:
                if 0 not in order[:n]:
                    if not exists:
                        probs.append(f"segment vanished when view {hi} was dropped (order {order})")
                    ref = SK.tables(twin)
                    if SK.tables(handles[0]) != ref:
                        probs.append(f"dropping view {hi} changed the owner's contents")
    finally:
        for i in (1, 2, 0):
            handles[i] = None
        del handles
        if os.path.exists("/dev/shm/" + name):
            try:
                os.unlink("/dev/shm/" + name)
            except OSError:
                pass
    return probs


ORDERS = list(itertools.permutations(range(3)))


def pool_size(tier):
    return 16


def task(arg):
    kind, args, seed, tier = arg
    from ..pool import SubReporter
    from ..common import StopExploration

    quiet_shm()
    sub = SubReporter(seed, tier)
    evs = events(kind, args)
    D = 3 if tier == "quick" else 4
    n = steps = 0
    sample = None
    try:
        # systems whose owner was obtained through load(..., shared_memory=True)
        for d in range(0, 3):
            for seq in itertools.product(evs, repeat=d):
                order = ORDERS[n % 6]
                p = run_history(kind, args, seq, order, via_load=True)
                n += 1
                steps += len(seq) + 3
                if p:
                    sub.violation(
                        {"kind_": kind, "args": args, "events": [list(e) for e in seq],
                         "order": list(order), "via_load": True},
                        f"{kind}{args} (owner from load(shared_memory=True)): {p[0]}",
                    )
        for d in range(0, D + 1):
            for seq in itertools.product(evs, repeat=d):
                orders = ORDERS if d <= 1 else [ORDERS[n % 6]]
                for order in orders:
                    p = run_history(kind, args, seq, order)
                    n += 1
                    steps += len(seq) + 3
                    if p:
                        sub.violation(
                            {"kind_": kind, "args": args, "events": [list(e) for e in seq],
                             "order": list(order)},
                            f"{kind}{args}: {p[0]}",
                        )
                if sample is None and d == D:
                    sample = {"kind": kind, "args": args, "events": [list(e) for e in seq],
                              "drop_order": list(orders[0])}
    except StopExploration:
        pass
    return dict(kind=kind, args=args, histories=n, steps=steps, sample=sample), sub.violations


def real_sleep_pass(rep):
    """One short history per class with the modules' real 0.25 s sleep in __del__."""
    import sketchnu.countmin as cm
    import sketchnu.heavyhitters as hh
    import sketchnu.hyperloglog as hl
    from time import sleep as real

    saved = (cm.sleep, hh.sleep, hl.sleep)
    cm.sleep = hh.sleep = hl.sleep = real
    try:
        for kind, args in (("linear", [3, 1]), ("log8", [3, 1]), ("hh", [1, 1, 3]), ("hll", [7, 0])):
            evs = events(kind, args)
            seq = (evs[0], evs[5], evs[-1])
            p = run_history(kind, args, seq, (1, 0, 2))
            rep.evals()
            rep.add("transitions", len(seq) + 3)
            if p:
                rep.violation({"kind_": kind, "args": args, "events": [list(e) for e in seq],
                               "order": [1, 0, 2], "real_sleep": True}, f"{kind}{args}: {p[0]}")
    finally:
        cm.sleep, hh.sleep, hl.sleep = saved


TABLE = {"linear": "cms", "log8": "cms", "log16": "cms", "hh": "lhh_count", "hll": "registers"}


def garbage_case(kind, args, who):
    """The garbage collector's timing is an environment answer: a handle is dropped while a
    numpy view of its table is referenced ONLY from a not-yet-collected reference cycle
    (automatic collection has not run).  Dropping a view must leave the segment and the owner's
    contents alone; dropping the owner must still remove the segment."""
    import gc

    probs = []
    was = gc.isenabled()
    gc.disable()
    name = None
    try:
        owner = SK.make(kind, *args, shared_memory=True)
        name = owner.shm.name
        view = SK.make(kind, *args)
        view.attach_existing_shm(name)
        owner.add(alphabet(kind, args)[0], 2)
        before = SK.tables(owner)
        h = owner if who == "owner" else view
        arr = getattr(h, TABLE[kind])[0:1]
        cyc = [arr]
        cyc.append(cyc)
        del arr, cyc, h
        if who == "view":
            del view
            if not os.path.exists("/dev/shm/" + name):
                probs.append("segment vanished when a view (with pending garbage) was dropped")
            elif SK.tables(owner) != before:
                probs.append("dropping a view (with pending garbage) changed the owner's contents")
            del owner
        else:
            del view
            del owner
        if os.path.exists("/dev/shm/" + name):
            probs.append(f"the /dev/shm segment still exists after the owner was dropped while a "
                         f"table view sat in uncollected cyclic garbage ({who}'s table)")
    finally:
        if was:
            gc.enable()
        gc.collect()
        if name and os.path.exists("/dev/shm/" + name):
            try:
                os.unlink("/dev/shm/" + name)
            except OSError:
                pass
    return probs


def pending_garbage_pass(rep):
    for kind, args in (("linear", [3, 1]), ("log16", [3, 1]), ("log8", [7, 3]), ("hh", [1, 1, 3]),
                       ("hll", [7, 0])):
        for who in ("owner", "view"):
            p = garbage_case(kind, args, who)
            rep.evals()
            rep.add("transitions", 3)
            rep.nontrivial(("garbage", kind, who))
            if p:
                rep.violation({"kind_": kind, "args": args, "garbage": who}, f"{kind}{args}: {p[0]}")


def run(rep):
    from ..pool import run_tasks

    quiet_shm()
    res = run_tasks(__name__, "task", [(k, a, rep.seed, rep.tier) for k, a in shapes(rep.tier, rep.seed)])
    for st, viol in res:
        rep.violations.extend(viol)
        rep.add("states", st["histories"])
        rep.add("transitions", st["steps"])
        rep.add("traces_validated_against_impl", st["histories"])
        rep.evals(st["histories"])
        rep.nontrivial((st["kind"], tuple(st["args"])))
        rep.nontrivial_n(st["histories"])
        rep.part(f"{st['kind']}-{st['args']}", histories=st["histories"], steps=st["steps"])
        if st["sample"]:
            rep.sample(st["sample"], limit=4)
    print(f"  {len(res)} shapes, {rep.cov['states']} histories, {rep.cov['transitions']} steps",
          flush=True)
    real_sleep_pass(rep)
    pending_garbage_pass(rep)
    left = [f for f in os.listdir("/dev/shm") if f.startswith("psm_")]
    rep.set("shm_segments_left_behind", len(left))
    rep.set(
        "rule",
        "states = event histories (every sequence up to depth D over the event alphabet, each "
        "event through one of 3 handles) x handle deletion orders, each replayed on fresh real "
        "objects; transitions = events + deletions executed; every history is non-trivial "
        "(3 handles + twin compared after every event)",
    )
    if not rep.violations and rep.cov["states"] < 500:
        raise MachineryError("C16 explored too few histories")


def replay(case):
    quiet_shm()
    if case.get("garbage"):
        p = garbage_case(case["kind_"], case["args"], case["garbage"])
        return bool(p), {"problems": p[:4]}
    if case.get("real_sleep"):
        import sketchnu.countmin as cm
        import sketchnu.heavyhitters as hh
        import sketchnu.hyperloglog as hl
        from time import sleep as real

        cm.sleep = hh.sleep = hl.sleep = real
    evs = [tuple(e) for e in case["events"]]
    p = run_history(case["kind_"], case["args"], evs, tuple(case["order"]),
                    via_load=bool(case.get("via_load")))
    return bool(p), {"problems": p[:4]}
