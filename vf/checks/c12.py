"""C12 - batch, dict, multiplicity and ngram entry points equal loops of single adds.

Commuting diagrams from EVERY state of a small history graph (depth 2 / 3) of
each of the five classes at colliding shapes: for each diagram the two paths
are run on two real objects restored to the same start state and must end in
the identical full concrete state (for log sketches with the same installed
draw sequence; rand_ptr included, so the number of draws consumed must agree).
Families, all enumerated completely:
  L  update(list)  vs add() per element          every list over 3 keys, len <= 3
  D  update(dict)  vs add(k, v) per item          every dict over 3 keys x values
  M  add(k, v)     vs v single adds               v in {0,1,2,3,7} (+10^4 lin/hh/hll)
  N  add_ngram(x,n) vs add() of every window      every x over 3 bytes, len 0..5, n 1..len+2
  U  update_ngram(list, n) vs add_ngram per element
  G  sketch[k] vs query(k)                        count-min only
"""
import itertools

import numpy as np

from .. import sk as SK
from ..bfs import capture as _capture, restore as _restore
from ..common import MachineryError
from ..models import cm as M2
from ..models import hll as M3

PROP = "C12"
LEVEL = "model_checking"


SKIP = ("rand_nums", "buckets")  # same installed batch on both paths (rand_ptr IS compared); buckets is a scratch buffer, not observable state (add(k,0) vs no call leaves it different)


def capture(sk):
    return _capture(sk, SKIP)


def restore(sk, cap):
    return _restore(sk, cap, SKIP)


def windows(x, n):
    if len(x) <= n:
        return [x]
    return [x[i : i + n] for i in range(len(x) - n + 1)]


def draw_pattern():
    # deterministic mixture: advance / stay / mid values (same for both paths)
    vals = np.empty(2048)
    x = 12345
    for i in range(2048):
        x = (x * 1103515245 + 12345) & 0x7FFFFFFF
        r = x % 5
        vals[i] = (0.0, 1.0 - 2.0**-53, 0.3, 0.7, (x >> 8) / 2.0**23 % 1.0)[r]
    return vals


_PATTERN = None


def reset_draws(sk):
    global _PATTERN
    if hasattr(sk, "rand_nums"):
        if _PATTERN is None:
            _PATTERN = draw_pattern()
        sk.rand_nums[:] = _PATTERN
        sk.rand_ptr = 0


def run_path(sk, path):
    for meth, args in path:
        getattr(sk, meth)(*args)


def subjects(tier, seed):
    salt = seed % 50
    subs = [
        ("linear", [2, 2]),
        ("log8", [2, 2, 1000, 2]),
        ("log16", [2, 2, 10**6, 2]),
        ("hh", [2, 2, 2]),
        ("hh", [1, 1, 3]),
        ("hll", [7, 2**63 + salt]),
        ("log8", [1, 1, 300, 250]),  # five log counters only: the ceiling is reached at once
    ]
    if tier == "thorough":
        subs += [("linear", [3, 1]), ("log8", [1, 3]), ("log16", [3, 2]), ("hh", [3, 2, 1]),
                 ("hh", [2, 1, 16]), ("hll", [16, 0])]
    return subs


def alphabet(kind, args, seed):
    if kind == "hll":
        p, sd = args
        m = 1 << p
        # two keys on one register, the empty key, and keys that END in NUL bytes
        return [M3.craft(p, sd, 5 % m, 2), M3.craft(p, sd, 5 % m, 3), b"", b"a\x00", b"\x00"]
    if kind == "hh":
        from .hh_common import hh_alphabet

        keys, _ = hh_alphabet(args, seed)
        return keys[:3]
    probe = M2.Probe(lambda: SK.make(kind, *args))
    return M2.choose_alphabet(probe, args[0], args[1], M2.pool(seed))


def start_states(kind, args, alpha, depth):
    """All states reachable by <= depth events from add(k,1)/add(k,3); returns a list of
    (event list, capture)."""
    sk = SK.make(kind, *args)
    reset_draws(sk)
    c0 = capture(sk)
    seen = {c0: []}
    frontier = [c0]
    evs = [("add", (k, v)) for k in alpha for v in (1, 3)]
    for _ in range(depth):
        nxt = []
        for c in frontier:
            for ev in evs:
                restore(sk, c)
                reset_draws(sk)
                run_path(sk, [ev])
                reset_draws(sk)
                c2 = capture(sk)
                if c2 not in seen:
                    seen[c2] = seen[c] + [ev]
                    nxt.append(c2)
        frontier = nxt
    if kind in ("linear", "hh"):
        # boundary start states: a counter that an n-gram WINDOW maps to is at, or one/two below,
        # the 2^32-1 ceiling, so that a batch / n-gram call crosses the ceiling in mid-call and
        # "what was actually applied" differs from "what was asked for" (n_added bookkeeping)
        ab = ngram_letters(alpha)
        top = 2**32 - 1
        for evl in ([("add", (ab[0], top))], [("add", (ab[0], top - 2))],
                    [("add", (ab[0] + ab[1], top - 1))], [("add", (ab[1], top)), ("add", (ab[0], 1))],
                    [("add", (alpha[0], top - 1))], [("add", (alpha[1], top))]):
            restore(sk, c0)
            run_path(sk, evl)
            c2 = capture(sk)
            if c2 not in seen:
                seen[c2] = list(evl)
    return [(v, k) for k, v in seen.items()]


def ngram_letters(alpha):
    ab = [alpha[0][:1] or b"a", b"b", b"\x00"]
    if ab[0] in (b"b", b"\x00"):
        ab[0] = b"a"
    return ab


def diagrams(kind, alpha, tier):
    from collections import Counter as _Counter

    A = list(alpha)
    big = kind in ("linear", "hh", "hll")
    # L
    for n in range(0, 4):
        for lst in itertools.product(A, repeat=n):
            yield ("L", [("update", (list(lst),))], [("add", (k,)) for k in lst])
    # LL: long lists (only from the empty start state): lengths around powers of two and
    # multiples of 4096, where a batching / chunking implementation has its edges
    if big:
        for n in (255, 256, 257, 1024, 4095, 4096, 4097, 8192, 12288):
            lst = [A[(i * i + i // 7) % len(A)] for i in range(n)]
            yield ("LL", [("update", (lst,))], [("add", (k,)) for k in lst])
            yield ("LL", [("update", (tuple(lst),))], [("add", (k,)) for k in lst])
    # D
    vals = [None, 1, 2, 3]
    for combo in itertools.product(vals, repeat=len(A)):
        items = [(k, v) for k, v in zip(A, combo) if v is not None]
        for order in (items, items[::-1]):
            d = dict(order)
            yield ("D", [("update", (d,))], [("add", (k, v)) for k, v in d.items()])
            if kind == "hll":  # HyperLogLog ignores multiplicities: one add per key
                yield ("D1", [("update", (d,))], [("add", (k,)) for k in d])
            else:
                yield ("D1", [("update", (d,))],
                       [("add", (k,)) for k, v in d.items() for _ in range(v)])
    if big:
        d = {A[0]: 10**4, A[1]: 2}
        yield ("D", [("update", (d,))], [("add", (k, v)) for k, v in d.items()])
    # distinct LONG keys that agree on their first 40 bytes (one identity for a heavy-hitters
    # sketch, two keys for everybody else), in one dict / Counter / list
    k1, k2 = b"Q" * 40 + b"-first", b"Q" * 40 + b"-second"
    for dd in ({k1: 5, A[0]: 1, k2: 7}, {k2: 2, k1: 3}):
        one = 1 if kind == "hll" else None
        yield ("Dl", [("update", (dict(dd),))], [("add", (k, v)) for k, v in dd.items()])
        yield ("Dl", [("update", (_Counter(dd),))], [("add", (k, v)) for k, v in dd.items()])
    yield ("Ll", [("update", ([k1, k2, k1],))], [("add", (k1,)), ("add", (k2,)), ("add", (k1,))])
    # legal argument variants: dict subclasses, numpy integer multiplicities / ngram sizes
    from collections import Counter as _Counter, OrderedDict as _OD

    d0 = {A[0]: 2, A[1]: 1, A[2]: 3}
    loop = [("add", (k,)) for k, v in d0.items() for _ in range(1 if kind == "hll" else v)]
    yield ("Dv", [("update", (_Counter(d0),))], loop)
    yield ("Dv", [("update", (_OD(d0),))], loop)
    for nv in (np.uint8(3), np.int32(3), np.uint32(3), np.int64(3), np.uint64(3)):
        yield ("Mv", [("add", (A[1], nv))], [("add", (A[1],))] * (1 if kind == "hll" else 3))
    xs = A[1] + A[0] + A[2] + b"zz"
    for nn in (np.uint8(2), np.int64(2), np.uint64(2), np.int32(2)):
        yield ("Nv", [("add_ngram", (xs, nn))], [("add", (w,)) for w in windows(xs, 2)])
    # M
    for k in A:
        sat = (300,) if kind == "log8" and k == A[0] else ()  # crosses the ceiling in one call
        for v in (0, 1, 2, 3, 7) + sat + ((10**4,) if big and k == A[0] else ()):
            yield ("M", [("add", (k, v))], [("add", (k,))] * (1 if kind == "hll" else v))
    # N
    ab = ngram_letters(A)
    maxlen = 5
    for L in range(0, maxlen + 1):
        for tup in itertools.product(ab, repeat=L):
            x = b"".join(tup)
            for n in range(1, L + 3):
                yield ("N", [("add_ngram", (x, n))], [("add", (w,)) for w in windows(x, n)])
    # U
    strs = [ab[0] + ab[1] + ab[2] + ab[0], b"", ab[1] * 3, ab[2] + ab[0]]
    for n in (1, 2, 3, 5):
        for lst in (strs, strs[::-1], strs[:1] * 2):
            yield ("U", [("update_ngram", (list(lst), n))], [("add_ngram", (x, n)) for x in lst])


def pool_size(tier):
    return 6 if tier == "quick" else 12


def task(arg):
    kind, args, seed, tier = arg
    from ..pool import SubReporter
    from ..common import StopExploration

    sub = SubReporter(seed, tier)
    alpha = alphabet(kind, args, seed)
    depth = 2 if tier == "quick" else 4
    starts = start_states(kind, args, alpha, depth)
    X = SK.make(kind, *args)
    Y = SK.make(kind, *args)
    n = 0
    fam = {}
    outcomes = set()
    sample = None
    try:
        for evs, cap0 in starts:
            for name, pa, pb in diagrams(kind, alpha, tier):
                if name == "LL" and evs:
                    continue
                restore(X, cap0)
                restore(Y, cap0)
                reset_draws(X)
                reset_draws(Y)
                run_path(X, pa)
                run_path(Y, pb)
                n += 1
                fam[name] = fam.get(name, 0) + 1
                ca, cb = capture(X), capture(Y)
                if ca != cb:
                    diff = [a[0] for a, b in zip(ca[1:], cb[1:]) if a != b]
                    sub.violation(
                        {"kind_": kind, "args": args, "start": [[m, list(a)] for m, a in evs],
                         "a": [[m, list(a)] for m, a in pa], "b": [[m, list(a)] for m, a in pb]},
                        f"{kind}{args}: {pa[0][0]}{_short(pa[0][1])} differs from the loop of single "
                        f"calls in fields {diff} (start state after {len(evs)} adds)",
                    )
                else:
                    outcomes.add(hash(ca))
                if sample is None and name == "N" and len(pb) > 2:
                    sample = {"kind": kind, "args": args, "start": evs, "a": pa, "b": pb}
            if kind in ("linear", "log8", "log16"):
                restore(X, cap0)
                for k in list(alpha) + [b"zz"]:
                    n += 1
                    fam["G"] = fam.get("G", 0) + 1
                    if X[k] != X.query(k):
                        sub.violation(
                            {"kind_": kind, "args": args, "start": [[m, list(a)] for m, a in evs],
                             "getitem": k},
                            f"{kind}{args}: sketch[{k!r}] = {X[k]} but query = {X.query(k)}",
                        )
    except StopExploration:
        pass
    return dict(kind=kind, args=args, starts=len(starts), diagrams=n, families=fam,
                outcomes=len(outcomes), sample=sample, alpha=alpha), sub.violations


def _short(args):
    s = repr(args)
    return s if len(s) < 80 else s[:77] + "..."


def run(rep):
    from ..pool import run_tasks

    res = run_tasks(__name__, "task", [(k, a, rep.seed, rep.tier) for k, a in subjects(rep.tier, rep.seed)])
    for st, viol in res:
        rep.violations.extend(viol)
        rep.add("states", st["starts"])
        rep.add("transitions", 2 * st["diagrams"])
        rep.add("traces_validated_against_impl", 2 * st["diagrams"])
        rep.evals(st["diagrams"])
        rep.nontrivial_n(st["outcomes"])
        rep.add("outcomes_sum", st["outcomes"])
        rep.part(f"{st['kind']}-{st['args']}", start_states=st["starts"], diagrams=st["diagrams"],
                 families=st["families"], distinct_end_states=st["outcomes"])
        if st["sample"]:
            rep.sample(st["sample"], limit=3)
        print(f"  {st['kind']}{st['args']}: starts={st['starts']} diagrams={st['diagrams']} "
              f"distinct end states={st['outcomes']}", flush=True)
        if not viol and st["outcomes"] < 20:
            raise MachineryError("C12 diagrams are vacuous (few distinct end states)")
    rep.set(
        "rule",
        "states = start states (all states reachable by <= D adds); each diagram runs both paths "
        "on two real objects restored to the start state and compares the full captured state; "
        "transitions = paths executed; non-trivial = distinct end states reached",
    )


def replay(case):
    kind, args = case["kind_"], case["args"]
    X = SK.make(kind, *args)
    reset_draws(X)
    for m, a in case["start"]:
        reset_draws(X)
        getattr(X, m)(*a)
    reset_draws(X)
    if "getitem" in case:
        k = case["getitem"]
        return X[k] != X.query(k), {"getitem": float(X[k]), "query": float(X.query(k))}
    cap0 = capture(X)
    Y = SK.make(kind, *args)
    restore(Y, cap0)
    reset_draws(X)
    reset_draws(Y)
    for m, a in case["a"]:
        getattr(X, m)(*a)
    for m, a in case["b"]:
        getattr(Y, m)(*a)
    ca, cb = capture(X), capture(Y)
    diff = [a[0] for a, b in zip(ca[1:], cb[1:]) if a != b]
    return ca != cb, {"fields_that_differ": diff}
