"""C05 - an add raises the key's estimate by its multiplicity and nothing past it.

Edge predicate evaluated on EVERY add transition of the E1 state graphs of
real count-min sketches (vf/checks/cm_common.py, mode "edge"): linear sketches
incl. merged and saturated states; log8 / log16 sketches where each add event
carries the environment's answers (every vector of advance/stay draws for
v <= 3), in a configuration whose probabilistic range starts after 3 adds and
in the default configuration.  Plus, on one-cell log sketches: every start value of
the reserved range x bulk adds ending at or below num_reserved+1 under worst-case
draws, and bulk adds with multiplicities 65536 .. 2^40.  On one-key linear
sketches: every boundary multiplicity (0 .. 2^64-1) x start count x entry point
(add, update(dict), list, tuple, iterator) x integer type (int, numpy uint64 /
int64 / uint32).
"""
from . import c01
from . import cm_common as C

PROP = "C05"
LEVEL = "model_checking"
MODES = ("edge",)


def configs(tier, seed):
    out = []
    lin = [0, 1, 3, 2**32 - 2, 2**40]
    ng = [[b"\x00\x00\x00", 1]]
    if tier == "quick":
        for w, d in [(1, 1), (2, 2), (3, 2)]:
            out.append(dict(kind="linear", args=[w, d], S=2, mults=lin, ngrams=ng, depth=4))
        for kind, mc in (("log8", 1000), ("log16", 10**6)):
            for w, d in [(1, 1), (2, 2)]:
                out.append(dict(kind=kind, args=[w, d, mc, 2], S=2, mults=[1, 3], ngrams=[],
                                depth=4, saveload=False))
            out.append(dict(kind=kind, args=[3, 2, mc, 2], S=1, mults=[0, 1, 3], ngrams=ng,
                            depth=5, saveload=False))
            out.append(dict(kind=kind, args=[2, 2], S=2, mults=[1, 3, 20], ngrams=[], depth=3))
        # sketches living in shared memory, table sizes that leave the counters unaligned
        out.append(dict(kind="linear", args=[3, 3], S=1, mults=[1, 3], ngrams=[], depth=4, shared=True,
                        saveload=False))
        out.append(dict(kind="log8", args=[5, 1, 1000, 2], S=1, mults=[1, 3], ngrams=[], depth=4,
                        shared=True, saveload=False))
        out.append(dict(kind="log16", args=[3, 1, 10**6, 2], S=1, mults=[1, 3], ngrams=[], depth=4,
                        shared=True, saveload=False))
    else:
        out.append(dict(kind="linear", args=[3, 3], S=2, mults=[1, 3], ngrams=[], depth=4, shared=True))
        out.append(dict(kind="log8", args=[5, 1, 1000, 2], S=2, mults=[1, 3], ngrams=[], depth=4,
                        shared=True, saveload=False))
        out.append(dict(kind="log16", args=[3, 1, 10**6, 2], S=2, mults=[1, 3], ngrams=[], depth=4,
                        shared=True, saveload=False))
        for w, d in [(1, 1), (2, 2), (3, 2), (2, 3), (4, 2)]:
            out.append(dict(kind="linear", args=[w, d], S=2, mults=lin, ngrams=ng, depth=4))
        for kind, mc in (("log8", 1000), ("log16", 10**6)):
            for w, d in [(1, 1), (2, 2), (3, 2)]:
                out.append(dict(kind=kind, args=[w, d, mc, 2], S=2, mults=[1, 3], ngrams=[],
                                depth=4, saveload=False))
                out.append(dict(kind=kind, args=[w, d, mc, 2], S=1, mults=[0, 1, 2, 3],
                                ngrams=ng, depth=5))
            out.append(dict(kind=kind, args=[2, 2], S=2, mults=[1, 3, 20], ngrams=[], depth=4))
            out.append(dict(kind=kind, args=[2, 2, mc // 3, 0], S=2, mults=[1, 2], ngrams=[],
                            depth=4, saveload=False))
    return out


def pool_size(tier):
    return 16


def run(rep):
    c01.run_modes(rep, MODES, configs(rep.tier, rep.seed))
    # log sketches, bulk adds on a one-cell sketch (shared with C06): from every start value
    # of the reserved range under worst-case draws, and multiplicities 65536 .. 2^40
    from . import c06

    n = c06.reserved_bulk(rep) + c06.huge_multiplicities(rep)
    # linear sketches: every boundary multiplicity x start count x entry point x integer type on
    # a one-key sketch (estimate exactly min(old + v, 2^32-1)); shared with C01
    n += c01.boundary_sweep(rep)
    rep.evals(n)
    rep.add("transitions", n)
    rep.add("traces_validated_against_impl", n)
    rep.set(
        "rule",
        "edge predicate (estimate of the key, other keys, table diff, n_added) on every add "
        "transition of BFS state graphs of real linear/log8/log16 sketches; log add events "
        "enumerate the draw vectors {advance,stay}^v; non-trivial state = two keys with positive "
        "counts share a counter",
    )


def replay(case):
    if case.get("part") in ("boundary", "boundary_ngram"):
        return c01.replay(case)
    if case.get("part") in ("bulk", "huge"):
        from . import c06

        return c06.replay(case)
    case = dict(case)
    case["modes"] = list(MODES)
    return c01.replay(case)
