"""C14 - row hashes are independent, so depth buys the documented exp(-depth) bound.

Level: exploration.  Complete enumeration of a FIXED key universe with a
deterministic verdict:
 (1) the complete universe of 1- and 2-byte keys (65 792 keys, prefixed by a
     2-byte salt from VERIF_SEED) at width 16, depth 8: the column each key owns
     in each row is read off the real sketch by probing; per row the column
     histogram must be balanced (chi2(15) < 120) and for ALL 28 row pairs the
     joint 16x16 histogram must be consistent with independence (chi2(225) <
     480); both limits are < 1e-12 under the null, identical seeding gives ~1e6.
     Also depths 2..7 use the same row functions (row r depends on r only).
 (2) deterministic Zipf streams of 5000 keys at widths 32/64/128, depth 8: the
     fraction of keys with estimate > true + e*N/width must be <= exp(-8).
It decides the observable surrogate (column maps of different rows are balanced
and not functionally related) and the documented bound on these streams; it
cannot establish independence of a hash family.
"""
import math

import numpy as np

from .. import sk as SK
from ..common import MachineryError

PROP = "C14"
LEVEL = "exploration"
W, D = 16, 8


def universe(seed):
    salt = bytes([(seed * 31 + 7) & 0xFF, (seed * 131 + 3) & 0xFF])
    keys = [salt + bytes([a]) for a in range(256)]
    keys += [salt + bytes([a, b]) for a in range(256) for b in range(256)]
    return keys


def columns(kind, width, depth, keys):
    """cols[i, r] = column owned by keys[i] in row r (probed on the real sketch)."""
    sk = SK.make(kind, width, depth)
    out = np.empty((len(keys), depth), np.int16)
    cms = sk.cms
    for i, k in enumerate(keys):
        sk.add(k, 1)
        out[i] = cms.argmax(axis=1)
        if int((cms != 0).sum()) != depth:
            raise MachineryError("probe: an add touched more or fewer than one cell per row")
        cms[...] = 0
    return out


def chi2_uniform(col, width):
    h = np.bincount(col, minlength=width).astype(float)
    e = len(col) / width
    return float(((h - e) ** 2 / e).sum())


def chi2_indep(c1, c2, width):
    joint = np.zeros((width, width))
    np.add.at(joint, (c1, c2), 1)
    r = joint.sum(1, keepdims=True)
    c = joint.sum(0, keepdims=True)
    e = r * c / joint.sum()
    with np.errstate(divide="ignore", invalid="ignore"):
        t = np.where(e > 0, (joint - e) ** 2 / e, 0.0)
    return float(t.sum())


def zipf_stream(seed, n=5000, s=1.2, scale=20000):
    keys = [b"z%d-%d" % (seed, i) for i in range(n)]
    cnt = [max(1, int(scale / (i + 1) ** s)) for i in range(n)]
    return keys, cnt


def bound_violations(width, keys, cnt):
    sk = SK.make("linear", width, D)
    # deterministic interleaving: heavy keys first then the tail, twice
    order = list(range(len(keys)))
    half = [c // 2 for c in cnt]
    for i in order:
        if half[i]:
            sk.add(keys[i], half[i])
    for i in reversed(order):
        sk.add(keys[i], cnt[i] - half[i])
    N = int(sk.n_added())
    lim = math.e * N / width
    over = [i for i in order if int(sk.query(keys[i])) > cnt[i] + lim]
    return over, N


def run(rep):
    keys = universe(rep.seed)
    cols = columns("linear", W, D, keys)
    rep.evals(len(keys) * D)
    for r in range(D):
        x = chi2_uniform(cols[:, r], W)
        rep.part(f"row{r}", chi2_uniform=round(x, 2))
        if x >= 120:
            rep.violation({"test": "uniform", "row": r, "seed": rep.seed},
                          f"row {r}: column histogram over the 65 792-key universe has "
                          f"chi2(15) = {x:.1f} (limit 120): keys are not spread evenly")
        rep.nontrivial(("uniform", r))
    worst = 0.0
    for r1 in range(D):
        for r2 in range(r1 + 1, D):
            x = chi2_indep(cols[:, r1], cols[:, r2], W)
            worst = max(worst, x)
            rep.evals(len(keys))
            if x >= 480:
                rep.violation({"test": "pair", "rows": [r1, r2], "seed": rep.seed},
                              f"rows {r1} and {r2}: joint column histogram has chi2(225) = {x:.1f} "
                              f"(limit 480): the rows are not independent")
            rep.nontrivial(("pair", r1, r2))
    rep.set("worst_pair_chi2", round(worst, 2))
    # a second, non-power-of-two width: rows must also be independent when more hash
    # bits are used (48 columns: chi2 dof 47^2 = 2209, sd 66; limit = dof + 10 sd)
    W2 = 48
    cols2 = columns("linear", W2, D, keys)
    rep.evals(len(keys) * D)
    lim2 = 47 * 47 + 10 * math.sqrt(2 * 47 * 47)
    worst2 = 0.0
    for r in range(D):
        x = chi2_uniform(cols2[:, r], W2)
        if x >= 47 + 10 * math.sqrt(94) + 60:
            rep.violation({"test": "uniform48", "row": r, "seed": rep.seed},
                          f"width 48 row {r}: column histogram chi2(47) = {x:.1f}")
    for r1 in range(D):
        for r2 in range(r1 + 1, D):
            x = chi2_indep(cols2[:, r1], cols2[:, r2], W2)
            worst2 = max(worst2, x)
            rep.evals(len(keys))
            if x >= lim2:
                rep.violation({"test": "pair48", "rows": [r1, r2], "seed": rep.seed},
                              f"width 48 rows {r1},{r2}: joint histogram chi2(2209) = {x:.1f} "
                              f"(limit {lim2:.0f}): the rows are not independent")
            rep.nontrivial(("pair48", r1, r2))
    rep.set("worst_pair_chi2_width48", round(worst2, 2))
    # larger power-of-two widths at depth 8 (each row needs log2(width) fresh hash bits):
    # every row balanced, neighbouring and far-apart row pairs independent
    sub_keys = keys[256 : 256 + 32768]
    # the "coarse 8x8" pair test works for any width that is a multiple of 8; the thorough tier
    # adds more powers of two and widths with an odd factor
    for Wp in ((32, 64, 128) if rep.tier == "quick" else (8, 32, 64, 128, 256, 512, 1024, 24, 40, 200, 1000)):
        colsp = columns("linear", Wp, D, sub_keys)
        rep.evals(len(sub_keys) * D)
        dof = Wp - 1
        for r in range(D):
            x = chi2_uniform(colsp[:, r], Wp)
            if x >= dof + 12 * math.sqrt(2 * dof) + 40:
                rep.violation({"test": "uniform-pow2", "width": Wp, "row": r, "seed": rep.seed},
                              f"width {Wp} depth 8, row {r}: column histogram chi2({dof}) = {x:.1f}: "
                              f"{len(set(colsp[:, r].tolist()))} of {Wp} columns ever used")
        for r1, r2 in ((0, 1), (0, 7), (3, 4), (6, 7), (2, 6)):
            # coarse 8x8 contingency on the columns' top three bits keeps expected counts large
            a = (colsp[:, r1].astype(np.int64) * 8 // Wp)
            b = (colsp[:, r2].astype(np.int64) * 8 // Wp)
            x = chi2_indep(a, b, 8)
            rep.evals(len(sub_keys))
            if x >= 49 + 12 * math.sqrt(98) + 40:
                rep.violation({"test": "pair-pow2", "width": Wp, "rows": [r1, r2], "seed": rep.seed},
                              f"width {Wp} depth 8, rows {r1},{r2}: coarse joint histogram chi2(49) = {x:.1f}")
        rep.nontrivial(("pow2", Wp))
    # further universes of LONG keys: more than one 8-byte hash block (10-12 bytes), more than 32
    # bytes, more than 128 bytes - width 16
    for plen in (8, 38, 126):
      prefix = (b"longkey-" * 16)[:plen]
      long_keys = [prefix + k for k in keys[256:]]
      cols3 = columns("linear", W, D, long_keys)
      rep.evals(len(long_keys) * D)
      worst3 = 0.0
      for r in range(D):
          x = chi2_uniform(cols3[:, r], W)
          if x >= 120:
              rep.violation({"test": "uniform-long", "row": r, "seed": rep.seed, "plen": plen},
                            f"{plen+2}-byte keys, row {r}: column histogram chi2(15) = {x:.1f} (limit 120)")
      for r1 in range(D):
          for r2 in range(r1 + 1, D):
              x = chi2_indep(cols3[:, r1], cols3[:, r2], W)
              worst3 = max(worst3, x)
              rep.evals(len(long_keys))
              if x >= 480:
                  rep.violation({"test": "pair-long", "rows": [r1, r2], "seed": rep.seed, "plen": plen},
                                f"{plen+2}-byte keys, rows {r1} and {r2}: joint column histogram "
                                f"chi2(225) = {x:.1f} (limit 480): the rows are not independent")
              rep.nontrivial(("pair-long", plen, r1, r2))
      # with d independent rows the number of distinct column vectors is ~ the number of keys
      distinct = len({bytes(row) for row in cols3.astype(np.uint8)})
      rep.set(f"distinct_column_vectors_long_keys_{plen+2}", distinct)
      if distinct < 0.99 * len(long_keys):
          rep.violation({"test": "vectors-long", "seed": rep.seed, "plen": plen},
                        f"{plen+2}-byte keys: only {distinct} distinct column vectors among "
                        f"{len(long_keys)} keys at width 16, depth 8 (16^8 possible)")
      rep.set(f"worst_pair_chi2_long_keys_{plen+2}", round(worst3, 2))
    # the other counter types and smaller depths use the same per-row functions
    sub = keys[:: max(1, len(keys) // 3000)]
    ref = cols[:: max(1, len(keys) // 3000)]
    for kind, depth in (("log8", 8), ("log16", 8), ("linear", 2), ("linear", 5)):
        c = columns(kind, W, depth, sub)
        rep.evals(len(sub) * depth)
        if not np.array_equal(c, ref[:, :depth]):
            rep.violation({"test": "samefn", "kind_": kind, "depth": depth, "seed": rep.seed},
                          f"{kind} depth {depth}: rows do not use the same column functions as "
                          f"the depth-8 linear sketch")
        rep.nontrivial(("samefn", kind, depth))
    # (2) documented bound on deterministic Zipf streams
    zk, zc = zipf_stream(rep.seed)
    allowed = int(math.floor(math.exp(-D) * len(zk)))
    for width in (32, 64, 128):
        over, N = bound_violations(width, zk, zc)
        rep.evals(len(zk))
        rep.part(f"zipf-w{width}", keys=len(zk), N=N, over_bound=len(over), allowed=allowed)
        if len(over) > allowed:
            rep.violation({"test": "bound", "width": width, "seed": rep.seed},
                          f"width {width}, depth {D}: {len(over)} of {len(zk)} keys exceed "
                          f"true + e*N/width (allowed exp(-{D}) = {allowed})")
        rep.nontrivial(("bound", width))
    rep.sample({"universe": "salt + every 1- and 2-byte string", "keys": len(keys), "width": W,
                "depth": D, "row_pairs": 28})
    rep.sample({"zipf_top_counts": zc[:5], "keys": len(zk)})
    rep.set(
        "rule",
        "complete fixed universe of 65 792 keys probed on the real sketch; one chi-square per row "
        "and per row pair (all 28), fixed limits; plus the documented bound on 3 deterministic "
        "Zipf streams; distinct non-trivial = distinct (test, row / row pair / width) verdicts",
    )
    rep.assume("surrogate for independence: balanced rows and no dependence detectable by a "
               "16x16 contingency test over the fixed universe")


def replay(case):
    seed = case.get("seed", 0)
    t = case["test"]
    if t == "bound":
        zk, zc = zipf_stream(seed)
        over, N = bound_violations(case["width"], zk, zc)
        return len(over) > int(math.floor(math.exp(-D) * len(zk))), {"over_bound": len(over), "N": N}
    keys = universe(seed)
    if t == "samefn":
        sub = keys[:: max(1, len(keys) // 3000)]
        a = columns("linear", W, D, sub)
        c = columns(case["kind_"], W, case["depth"], sub)
        return not np.array_equal(c, a[:, : case["depth"]]), {}
    if t in ("uniform-pow2", "pair-pow2"):
        Wp = case["width"]
        colsp = columns("linear", Wp, D, keys[256 : 256 + 32768])
        if t == "uniform-pow2":
            x = chi2_uniform(colsp[:, case["row"]], Wp)
            return x >= (Wp - 1) + 12 * math.sqrt(2 * (Wp - 1)) + 40, {"chi2": x}
        r1, r2 = case["rows"]
        a = (colsp[:, r1].astype(np.int64) * 8 // Wp)
        b = (colsp[:, r2].astype(np.int64) * 8 // Wp)
        x = chi2_indep(a, b, 8)
        return x >= 49 + 12 * math.sqrt(98) + 40, {"chi2": x}
    if t in ("uniform-long", "pair-long", "vectors-long"):
        long_keys = [(b"longkey-" * 16)[: case.get("plen", 8)] + k for k in keys[256:]]
        cols3 = columns("linear", W, D, long_keys)
        if t == "uniform-long":
            x = chi2_uniform(cols3[:, case["row"]], W)
            return x >= 120, {"chi2": x}
        if t == "vectors-long":
            distinct = len({bytes(row) for row in cols3.astype(np.uint8)})
            return distinct < 0.99 * len(long_keys), {"distinct": distinct}
        r1, r2 = case["rows"]
        x = chi2_indep(cols3[:, r1], cols3[:, r2], W)
        return x >= 480, {"chi2": x}
    if t in ("uniform48", "pair48"):
        cols2 = columns("linear", 48, D, keys)
        if t == "uniform48":
            x = chi2_uniform(cols2[:, case["row"]], 48)
            return x >= 47 + 10 * math.sqrt(94) + 60, {"chi2": x}
        r1, r2 = case["rows"]
        x = chi2_indep(cols2[:, r1], cols2[:, r2], 48)
        return x >= 47 * 47 + 10 * math.sqrt(2 * 47 * 47), {"chi2": x}
    cols = columns("linear", W, D, keys)
    if t == "uniform":
        x = chi2_uniform(cols[:, case["row"]], W)
        return x >= 120, {"chi2": x}
    r1, r2 = case["rows"]
    x = chi2_indep(cols[:, r1], cols[:, r2], W)
    return x >= 480, {"chi2": x}
