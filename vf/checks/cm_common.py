"""Shared E1 system for the count-min properties C01, C05, C06(iii), C18.

S real count-min sketches (linear / log16 / log8) of one shape; model[s] =
sorted (key, true multiplicity).  For log sketches every add event carries the
environment's answers: the uniform draws its unit steps will see (the harness
writes them into rand_nums / rand_ptr before the step), so the explorer
enumerates the randomness instead of sampling it.

modes (set of strings):
  bounds   C01  lower/upper collision bounds on every key in every state (linear)
  edge     C05  pre/post predicate on every add transition
  lower    C06  est >= min(true, num_reserved+1) in every state (log)
  mono     C18  no event lowers any estimate; saturated keys stay saturated
"""
import itertools
import os

import numpy as np

from .. import sk as SK
from ..bfs import E1, capture, restore
from ..common import U32, MachineryError
from ..models import cm as M2

NEVER = (b"never-added-1", b"\x00never")
ADV = 0.0  # a draw that always advances the counter (rand < base**-c for every c)
STAY = 1.0 - 2.0**-53  # the largest double below 1: never advances for c' >= 1


class _FrozenTime:
    """zipfile stamps every member with time.localtime(time.time()); a fixed clock makes the
    bytes written by save() a pure function of the sketch (the file is part of the state)."""

    def __init__(self, real):
        self._real = real

    def time(self):
        return 1704067200.0

    def localtime(self, t=None):
        return self._real.gmtime(1704067200.0)

    def __getattr__(self, name):
        return getattr(self._real, name)


def freeze_zip_clock():
    import zipfile

    if not isinstance(zipfile.time, _FrozenTime):
        zipfile.time = _FrozenTime(zipfile.time)


def windows(x, n):
    if len(x) <= n:
        return [x]
    return [x[i : i + n] for i in range(len(x) - n + 1)]


class CMSys(E1):
    name = "cm"
    skip = ("rand_nums", "rand_ptr")  # owned by the harness (installed per step)

    def __init__(self, scratch_dir, modes):
        self.dir = scratch_dir
        self.modes = set(modes)
        self._sl_cache = {}
        self.file = os.path.join(scratch_dir, "sl.npz")
        freeze_zip_clock()

    # the one scratch file every sketch of the system is saved to is part of the state
    def _sync(self):
        """Re-read the scratch file after the library wrote (or should have written) it."""
        try:
            with open(self.file, "rb") as f:
                self._file_now = f.read()
        except FileNotFoundError:
            self._file_now = b""

    _file_now = b""

    def ext_capture(self):
        return self._file_now

    def ext_restore(self, x):
        if x == self._file_now:
            return
        if x:
            with open(self.file, "wb") as f:
                f.write(x)
        elif os.path.exists(self.file):
            os.remove(self.file)
        self._file_now = x

    def factory(self):
        c = self.cfg
        return SK.make(c["kind"], *c["args"], shared_memory=bool(c.get("shared")))

    def init(self, cfg):
        self.cfg = cfg
        self.kind = cfg["kind"]
        self.is_log = self.kind != "linear"
        self.width = int(cfg["args"][0])
        self.depth = int(cfg["args"][1])
        # cell ownership is a function of (key, row, width): it is probed on an in-memory
        # sketch of the same class/shape even when the system under test lives in shared memory
        self._probe = M2.Probe(lambda: SK.make(cfg["kind"], *cfg["args"]))
        work = [self.factory() for _ in range(cfg["S"])]
        for w in work:
            if self.is_log:
                SK.install_draws(w, [])
        self.alpha = [bytes(k) for k in cfg["keys"]]
        s0 = work[0]
        if self.is_log:
            self.nr = int(s0.num_reserved)
            self.ceil_counter = int(s0.uint_maxval)
        return work, tuple(() for _ in range(cfg["S"]))

    def cols(self, key):
        return self._probe.cols(key)

    def heal(self, work, caps):
        if not self.cfg.get("shared"):
            return
        from ..bfs import in_block

        for i, sk in enumerate(work):
            if not (in_block(sk.cms, sk.shm) and in_block(sk.n_added_records, sk.shm)):
                # left behind by an earlier transition (reported there): start from a sound object
                work[i] = self.factory()
                if self.is_log:
                    SK.install_draws(work[i], [])
                restore(work[i], caps[i], self.skip)

    def touched(self, ev):
        return (ev[1], ev[2]) if ev[0] == "merge" else (ev[1],)

    def draw_vectors(self, v):
        if not self.is_log or v == 0:
            return [()]
        if v <= 3:
            return list(itertools.product((ADV, STAY), repeat=v))
        return [tuple([ADV] * v)]

    def events(self, model, depth):
        c = self.cfg
        S = c["S"]
        for s in range(S):
            for k in self.alpha:
                for v in c["mults"]:
                    for dr in self.draw_vectors(v):
                        yield ("add", s, k, v, dr)
        if c.get("updates"):
            for s in range(S):
                yield ("upd", s, (self.alpha[0], self.alpha[1], self.alpha[0]), "list")
                yield ("upd", s, (self.alpha[2], self.alpha[1]), "iter")
        for s in range(S):
            for x, n in c.get("ngrams", ()):
                x = bytes(x)
                nw = len(windows(x, n))
                for dr in ([()] if not self.is_log else [tuple([ADV] * nw), tuple([STAY] * nw)]):
                    yield ("ngram", s, x, n, dr)
        for s in range(S):
            for t in range(S):
                if s != t:
                    yield ("merge", s, t)
        if c.get("selfmerge", True):
            # a sketch merged with itself (in shared memory: with a second handle attached to
            # its own block): every true count doubles
            for s in range(S):
                yield ("merge", s, s)
        if c.get("saveload", True):
            for s in range(S):
                yield ("saveload", s)
            for s in range(S):
                yield ("savecheck", s)

    # ------------------------------------------------------------------
    def universe(self, model):
        u = set(self.alpha) | set(NEVER)
        for x in model:
            for k, _ in x:
                u.add(k)
        return sorted(u)

    def ests(self, sk, uni):
        return {k: float(sk.query(k)) for k in uni}

    def at_ceiling(self, sk, key):
        top = int(sk.uint_maxval)
        return self.min_counter(sk, key) == top

    def min_counter(self, sk, key):
        ck = self.cols(key)
        return min(int(sk.cms[r, ck[r]]) for r in range(self.depth))

    def apply(self, work, model, ev):
        m = [dict(x) for x in model]
        op = ev[0]
        probs = []
        need_pre = "edge" in self.modes or "mono" in self.modes
        s = ev[1]
        if need_pre:
            uni = self.universe(model)
            sk = work[s]
            pre = self.ests(sk, uni)
            pre_tab = sk.cms.copy()
            pre_n = int(sk.n_added())
            pre_c = self.min_counter(sk, ev[2]) if op == "add" else None
            was_top = {j for j in uni if self.at_ceiling(sk, j)}
        probe_key = None
        if "bounds" in self.modes and op != "set":
            # read-your-key around the mutation: the LAST read before the event and the
            # FIRST read after it are of the same key (a one-entry read memo that misses an
            # invalidation path is only visible in exactly this pattern)
            pk = sorted(self.alpha)
            probe_key = pk[(len(model[s]) + sum(min(c, 7) for _, c in model[s]) + len(op)) % len(pk)]
            work[s].query(probe_key)
        if op == "add":
            _, s, k, v, dr = ev
            if self.is_log:
                SK.install_draws(work[s], list(dr))
            work[s].add(k, v)
            m[s][k] = m[s].get(k, 0) + v
        elif op == "upd":
            _, s, ks, how = ev
            ks = [bytes(k) for k in ks]
            if self.is_log:
                SK.install_draws(work[s], [ADV] * len(ks))
            try:
                work[s].update(ks if how == "list" else iter(ks))
                accepted = True
            except TypeError:
                accepted = how == "list"  # a one-shot iterable may be refused, a list may not
                if accepted:
                    raise
            if accepted:
                for k in ks:
                    m[s][k] = m[s].get(k, 0) + 1
        elif op == "ngram":
            _, s, x, n, dr = ev
            if self.is_log:
                SK.install_draws(work[s], list(dr))
            work[s].add_ngram(x, n)
            for w in windows(x, n):
                m[s][w] = m[s].get(w, 0) + 1
        elif op == "merge":
            _, s, t = ev
            if s == t and self.cfg.get("shared"):
                view = SK.make(self.cfg["kind"], *self.cfg["args"])
                view.attach_existing_shm(work[s].shm.name)
                work[s].merge(view)
                del view
            else:
                work[s].merge(work[t])
            for k, v in list(m[t].items()):
                m[s][k] = m[s].get(k, 0) + v
        elif op == "set":
            # harness-made start state: key's cells are written directly (used only in
            # extra_init lists, e.g. a log16 counter 3 below its ceiling)
            _, s, k, cval, tval = ev
            ck = self.cols(k)
            for r in range(self.depth):
                work[s].cms[r, ck[r]] = cval
            m[s][k] = m[s].get(k, 0) + tval
        elif op == "saveload":
            # the sketch is saved and REPLACED by what load() returns.  Memoised (result and
            # file bytes) only while no state outside the objects exists (pristine globals)
            memo_ok = not (self.G.capture() if hasattr(self, "G") else ())
            before = (capture(work[s], self.skip), self.ext_capture())
            hit = self._sl_cache.get(before) if memo_ok else None
            if hit is None:
                work[s].save(self.file)
                self._sync()
                work[s] = type(work[s]).load(self.file, bool(self.cfg.get("shared")))
                if self.is_log:
                    SK.install_draws(work[s], [])
                if memo_ok and not (self.G.capture() if hasattr(self, "G") else ()):
                    self._sl_cache[before] = (capture(work[s], self.skip), self.ext_capture())
            else:
                restore(work[s], hit[0], self.skip)
                self.ext_restore(hit[1])
        elif op == "savecheck":
            # checkpointing: the sketch is saved to the shared scratch path and KEPT; what
            # load() returns from that path right now must be this sketch
            work[s].save(self.file)
            self._sync()
            try:
                L = type(work[s]).load(self.file)
            except Exception as e:
                probs.append(f"sketch {s}: load() of the file just written by save() raised "
                             f"{type(e).__name__}: {e}")
                L = None
            if L is not None:
                diff = SK.persist_diff(work[s], L)
                if diff:
                    probs.append(f"sketch {s}: after save() to the shared scratch path, load() of "
                                 f"that path returns a different sketch (differs in {diff})")
                del L
        else:
            raise MachineryError(f"unknown event {ev}")
        if probe_key is not None:
            q = int(work[s].query(probe_key))
            true2 = m[s].get(probe_key, 0)
            lo = min(true2, U32)
            if q < lo:
                probs.append(
                    f"sketch {s}: reading {probe_key!r} just before and just after {op}: the second "
                    f"read returns {q}, below min(true, 2^32-1) = {lo} (stale read)"
                )
            elif true2 == 0 and all(c == 0 for c in m[s].values()) and q != 0:
                probs.append(f"sketch {s}: empty sketch estimates {q} for {probe_key!r}")
        if need_pre:
            sk = work[s]
            post = self.ests(sk, uni)
            if "mono" in self.modes and op != "set":
                for j in uni:
                    if post[j] < pre[j]:
                        probs.append(
                            f"sketch {s}: {op} lowered the estimate of {j!r} from {pre[j]} to {post[j]}"
                        )
                    if j in was_top and not self.at_ceiling(sk, j):
                        probs.append(
                            f"sketch {s}: {op} moved {j!r} off its ceiling: {pre[j]} -> {post[j]}"
                        )
            if "edge" in self.modes and op == "add":
                probs += self.edge_add(sk, s, ev, pre, post, pre_tab, pre_n, pre_c)
        return tuple(tuple(sorted(x.items())) for x in m), probs

    def edge_add(self, sk, s, ev, pre, post, pre_tab, pre_n, pre_c):
        _, _, key, v, dr = ev
        probs = []
        ck = self.cols(key)
        if not self.is_log:
            want = min(int(pre[key]) + v, U32)
            if int(post[key]) != want:
                probs.append(
                    f"sketch {s}: add({key!r},{v}): estimate {int(pre[key])} -> {int(post[key])}, "
                    f"expected min(old+v, 2^32-1) = {want}"
                )
            cut = int(pre[key]) + v > U32
        else:
            c1 = self.min_counter(sk, key)
            steps = c1 - pre_c
            if steps < 0 or steps > v:
                probs.append(
                    f"sketch {s}: add({key!r},{v}): smallest counter moved {pre_c} -> {c1} "
                    f"({steps} steps, allowed 0..{v})"
                )
            if c1 < min(pre_c + v, self.nr + 1):
                # add(key, v) is v unit adds and every unit step below num_reserved+1 is
                # exact, so the reserved part of a larger add cannot be lost either
                probs.append(
                    f"sketch {s}: add({key!r},{v}): smallest counter {pre_c} -> {c1}; the steps up "
                    f"to num_reserved+1 = {self.nr + 1} are exact, so it must reach at least "
                    f"{min(pre_c + v, self.nr + 1)}"
                )
            if pre_c + v <= self.nr + 1:
                if steps != v or post[key] != pre[key] + v:
                    probs.append(
                        f"sketch {s}: add({key!r},{v}) inside the reserved range: counter "
                        f"{pre_c} -> {c1}, estimate {pre[key]} -> {post[key]} (must be exact)"
                    )
            cut = c1 >= self.ceil_counter
        for j in pre:
            if j == key:
                continue
            if post[j] < pre[j]:
                probs.append(
                    f"sketch {s}: add({key!r},{v}) lowered the estimate of {j!r}: {pre[j]} -> {post[j]}"
                )
            if post[j] > max(pre[j], post[key]):
                probs.append(
                    f"sketch {s}: add({key!r},{v}) pushed {j!r} to {post[j]}, above "
                    f"max(its old estimate {pre[j]}, key's new estimate {post[key]})"
                )
        ch = np.argwhere(pre_tab != sk.cms)
        rows = {}
        for r, c in ch:
            rows[int(r)] = rows.get(int(r), 0) + 1
            if int(c) != ck[int(r)]:
                probs.append(
                    f"sketch {s}: add({key!r},{v}) changed counter ({int(r)},{int(c)}) which is "
                    f"not the key's cell ({int(r)},{ck[int(r)]})"
                )
        if any(n > 1 for n in rows.values()):
            probs.append(f"sketch {s}: add({key!r},{v}) changed more than one counter in a row")
        dn = int(sk.n_added()) - pre_n
        if not cut and dn != v:
            probs.append(
                f"sketch {s}: add({key!r},{v}) not cut by a ceiling but n_added() grew by {dn}"
            )
        return probs

    def oracle(self, work, model):
        probs = []
        if self.cfg.get("shared"):
            # the state of a shared-memory sketch is its block: a second handle attached to it
            # (what parallel_add's workers and mergers use) must read what the object reads
            uni = self.universe(model)
            for s, sk in self.active(work):
                view = SK.make(self.cfg["kind"], *self.cfg["args"])
                view.attach_existing_shm(sk.shm.name)
                for k in uni:
                    a, b = float(sk.query(k)), float(view.query(k))
                    if a != b:
                        probs.append(f"sketch {s}: the object estimates {a} for {k!r} but a second "
                                     f"handle attached to its shared block reads {b}")
                        break
                if int(view.n_added()) != int(sk.n_added()) or int(view.n_records()) != int(sk.n_records()):
                    probs.append(f"sketch {s}: n_added/n_records differ between the object and a "
                                 f"second handle attached to its shared block")
                del view
        if not (self.modes & {"bounds", "lower", "mono"}):
            return probs
        uni = self.universe(model)
        cols = {k: self.cols(k) for k in uni}
        for s, sk in self.active(work):
            true = dict(model[s])
            if "bounds" in self.modes:
                cell = {}
                for k, v in true.items():
                    if v:
                        ck = cols[k]
                        for r in range(self.depth):
                            cell[(r, ck[r])] = cell.get((r, ck[r]), 0) + v
                for k in uni:
                    q = int(sk.query(k))
                    q2 = int(sk[k])
                    lo = min(true.get(k, 0), U32)
                    ck = cols[k]
                    hi = min(min(cell.get((r, ck[r]), 0) for r in range(self.depth)), U32)
                    if q != q2:
                        probs.append(f"sketch {s}: query({k!r})={q} but sketch[key]={q2}")
                    if q < lo:
                        probs.append(
                            f"sketch {s}: estimate {q} of {k!r} is below min(true, 2^32-1) = {lo}"
                        )
                    if q > hi:
                        probs.append(
                            f"sketch {s}: estimate {q} of {k!r} exceeds the collision bound {hi} "
                            f"(true {true.get(k, 0)})"
                        )
            if "lower" in self.modes:
                for k in uni:
                    q = float(sk.query(k))
                    lo = min(true.get(k, 0), self.nr + 1)
                    if q < lo:
                        probs.append(
                            f"sketch {s}: log estimate {q} of {k!r} is below "
                            f"min(true, num_reserved+1) = {lo}"
                        )
            if "mono" in self.modes and not self.is_log:
                # a key that is collision-free in some row is counted exactly (capped)
                for k, f in true.items():
                    ck = cols[k]
                    free = any(
                        all(cols[j][r] != ck[r] for j, fj in true.items() if j != k and fj)
                        for r in range(self.depth)
                    )
                    if free:
                        q = int(sk.query(k))
                        if q != min(f, U32):
                            probs.append(
                                f"sketch {s}: collision-free key {k!r} estimated {q}, "
                                f"expected min(true, 2^32-1) = {min(f, U32)}"
                            )
            if self.modes & {"lower", "mono"} and "bounds" not in self.modes:
                # leave `buckets` in a canonical value for the capture
                sk.query(uni[-1])
        return probs

    def nontrivial(self, work, model):
        for x in model:
            ks = [k for k, v in x if v]
            for i in range(len(ks)):
                for j in range(i + 1, len(ks)):
                    a, b = self.cols(ks[i]), self.cols(ks[j])
                    if any(a[r] == b[r] for r in range(self.depth)):
                        return True
        return False

    def outcome(self, work, model):
        return tuple(w.cms.tobytes() for w in work)


def with_alphabet(cfg, seed):
    """Choose the 3-key alphabet for this shape by probing the real sketch."""
    w, d = cfg["args"][0], cfg["args"][1]
    probe = M2.Probe(lambda: SK.make(cfg["kind"], *cfg["args"]))
    keys = M2.choose_alphabet(probe, w, d, M2.pool(seed))
    if cfg.get("shared"):
        # one key that owns the LAST cell of the table (where bookkeeping counters that are
        # laid out too early would overlap)
        for k in M2.pool(seed):
            if k not in keys[:2] and probe.cols(k)[d - 1] == w - 1:
                keys = [keys[0], keys[1], k]
                break
    cfg = dict(cfg)
    cfg["keys"] = keys
    return cfg


def label(cfg):
    return f"{cfg['kind']}-{cfg['args']}-S{cfg['S']}-m{len(cfg['mults'])}-D{cfg['depth']}"
