"""C11 - fasthash64 / fasthash32 / murmur3 equal the published algorithms.

Exhaustive enumeration (E3) of a finite input domain, every element compared
with the reference model M1 (vf/models/hashes.py):
 (a) lengths 0..257 (thorough: 0..4099) x 6 byte-pattern generators x boundary seeds
 (b) every byte value at every position of every length 0..L (24; thorough 128), two backgrounds
 (c) the same key taken as a slice at offsets 0..15 of a larger buffer, and
     built by several different constructions (bytes(), bytearray, join, slice)
 (d) SMHasher verification values
 (e) history independence: values recomputed in interleaved / reversed order
 (f) a second interpreter with another PYTHONHASHSEED recomputes a digest
 (g) keys produced inside jitted code as slice views buf[a:b] (offsets 0..16, lengths
     0..40, three buffers without NUL bytes): same value as for the equal bytes object
"""
import hashlib
import os
import subprocess
import sys

from ..common import MachineryError
from ..models import hashes as M1

PROP = "C11"
LEVEL = "model_checking"

SEEDS32 = [0, 1, 2**31, 2**32 - 1]
SEEDS64 = SEEDS32 + [2**32, 2**63, 2**64 - 1]

FUNCS = {
    "fasthash64": (M1.fasthash64, SEEDS64),
    "fasthash32": (M1.fasthash32, SEEDS64),
    "murmur3": (M1.murmur3, SEEDS32),
}


def _impl():
    import sketchnu.hashes as H

    return {"fasthash64": H.fasthash64, "fasthash32": H.fasthash32, "murmur3": H.murmur3}


def _patterns(n, salt):
    """Six deterministic byte patterns of length n (biased to 00/7f/80/ff)."""
    edge = [0x00, 0x7F, 0x80, 0xFF]
    out = []
    out.append(bytes(n))
    out.append(b"\xff" * n)
    out.append(bytes(edge[(i + salt) % 4] for i in range(n)))
    out.append(bytes((i * 37 + salt) & 0xFF for i in range(n)))
    out.append(bytes(0x80 if (i + salt) % 3 == 0 else 0x7F for i in range(n)))
    h = hashlib.sha256(f"c11-{salt}-{n}".encode()).digest()
    rnd = (h * (n // 32 + 1))[:n]
    # bias a third of the bytes to edge values
    out.append(bytes(edge[b & 3] if b % 3 == 0 else b for b in rnd))
    return out


def _check(rep, impl, name, key, seed, where):
    ref, _ = FUNCS[name]
    got = int(impl[name](key, seed))
    exp = ref(key, seed)
    rep.evals()
    if got != exp:
        rep.violation(
            {"kind": "hash", "fn": name, "key": key, "seed": seed},
            f"{name}({key!r:.80}, seed={seed}) = {got:#x}, reference {exp:#x} [{where}]",
        )
    return got


def digest_a(impl, salt=0):
    """Digest over family (a); also used by the second interpreter."""
    d = hashlib.sha256()
    for n in range(0, 258):
        for key in _patterns(n, salt):
            for name in ("fasthash64", "fasthash32", "murmur3"):
                for seed in FUNCS[name][1]:
                    d.update(int(impl[name](key, seed)).to_bytes(8, "little"))
    return d.hexdigest()


VERIF_VALUES = {
    "fasthash64": (64, (1 << 64) - 1, 0xA16231A7),
    "fasthash32": (32, (1 << 64) - 1, 0xE9481AFC),
    "murmur3": (32, (1 << 32) - 1, 0xB0F57EE3),
}

_SECOND = r"""
import importlib.util, sys, hashlib
sys.path.insert(0, %(verif)r)
spec = importlib.util.spec_from_file_location("repo_hashes", %(path)r)
m = importlib.util.module_from_spec(spec); spec.loader.exec_module(m)
from vf.checks import c11
impl = {"fasthash64": m.fasthash64, "fasthash32": m.fasthash32, "murmur3": m.murmur3}
print("DIGEST", c11.digest_a(impl, %(salt)d))
"""


_DRV = {}


def _seed_t(name, seed):
    import numpy as np

    return np.uint32(seed) if name == "murmur3" else np.uint64(seed)


def _jit_drivers():
    """Harness-side jitted callers that build the key as a slice view inside nopython code."""
    if not _DRV:
        from numba import njit
        from sketchnu.hashes import fasthash64, fasthash32, murmur3

        @njit
        def d64(buf, a, b, seed):
            return fasthash64(buf[a:b], seed)

        @njit
        def d32(buf, a, b, seed):
            return fasthash32(buf[a:b], seed)

        @njit
        def dm3(buf, a, b, seed):
            return murmur3(buf[a:b], seed)

        _DRV.update({"fasthash64": d64, "fasthash32": d32, "murmur3": dm3})
    return _DRV


def _second_start(salt):
    from ..common import VERIF_DIR, REPO

    env = dict(os.environ)
    env["PYTHONHASHSEED"] = str(12345 + salt)
    code = _SECOND % {
        "verif": VERIF_DIR,
        "path": os.path.join(REPO, "sketchnu", "hashes.py"),
        "salt": salt,
    }
    return subprocess.Popen(
        [sys.executable, "-c", code], env=env, stdout=subprocess.PIPE, stderr=subprocess.PIPE
    )


def _second_collect(child):
    out, err = child.communicate(timeout=900)
    line = [l for l in out.decode().splitlines() if l.startswith("DIGEST")]
    if child.returncode != 0 or not line:
        # the stand-alone module failed to load: not a verdict about hashing
        raise MachineryError("second interpreter failed: " + err.decode()[-400:])
    return line[0].split()[1]


def run(rep):
    impl = _impl()
    salt = rep.seed % 251
    L = 24 if rep.tier == "quick" else 128
    NA = 258 if rep.tier == "quick" else 4100  # lengths of part (a)

    # (f) start the second interpreter now, collect at the end
    child = _second_start(salt)

    inputs = 0
    # (d) SMHasher verification values
    ver = VERIF_VALUES
    for name, (bits, mask, const) in ver.items():
        refv = M1.smhasher_verification(FUNCS[name][0], bits, mask)
        if refv != const:
            raise MachineryError(f"reference model {name} does not reproduce SMHasher value")
        f = impl[name]
        got = M1.smhasher_verification(lambda k, s: int(f(k, s)), bits, mask)
        rep.evals(257)
        if got != const:
            rep.violation(
                {"kind": "smhasher", "fn": name},
                f"{name}: SMHasher verification value {got:#x} != {const:#x}",
            )
    # (a)
    for n in range(0, NA):
        for key in _patterns(n, salt):
            inputs += 1
            for name in FUNCS:
                for seed in FUNCS[name][1]:
                    _check(rep, impl, name, key, seed, "a")
            if n in (0, 1, 7, 8, 9, 257):
                rep.nontrivial(("a", n, key[:4]))
    rep.part("a_lengths", lengths=NA, patterns=6)

    # (b) every byte value at every position
    nb = 0
    for n in range(1, L + 1):
        for bg_i, bg in enumerate((0x00, 0xA5 ^ (salt & 0x0F))):
            base = bytearray([bg]) * n
            for pos in range(n):
                for val in range(256):
                    base[pos] = val
                    key = bytes(base)
                    for name in FUNCS:
                        _check(rep, impl, name, key, FUNCS[name][1][(pos + val) % 2 * 3], "b")
                    nb += 1
                base[pos] = bg
                rep.nontrivial(("b", n, pos, bg_i))
    inputs += nb
    rep.part("b_bytes_positions", max_len=L, inputs=nb)

    # (c) alignment and construction
    big = bytes((i * 73 + 11 + salt) & 0xFF for i in range(400))
    nc = 0
    for off in range(16):
        for n in list(range(0, 34)) + [63, 64, 65, 127, 128, 129, 255, 256, 257]:
            k1 = big[off : off + n]
            variants = [
                k1,
                bytes(bytearray(k1)),
                b"".join(bytes([b]) for b in k1),
                bytes(memoryview(big)[off : off + n]),
                (b"\x00" * off + k1)[off:],
            ]
            for name in FUNCS:
                seed = FUNCS[name][1][off % len(FUNCS[name][1])]
                vals = {int(impl[name](v, seed)) for v in variants}
                rep.evals(len(variants))
                exp = FUNCS[name][0](k1, seed)
                if vals != {exp}:
                    rep.violation(
                        {"kind": "hash", "fn": name, "key": k1, "seed": seed},
                        f"{name} depends on how the bytes object was built: {vals} vs {exp:#x}",
                    )
            nc += 1
        rep.nontrivial(("c", off))
    inputs += nc

    # (g) keys produced INSIDE jitted code: a slice view buf[a:b] of a larger buffer whose
    #     neighbouring bytes are non-zero (how the library's own n-gram shingling calls the
    #     hashes).  A Python-created bytes object always ends in a hidden NUL; a view does not.
    drivers = _jit_drivers()
    bufs = [bytes(0x80 + ((i * 29 + salt) % 0x7F) for i in range(96)), b"\xff" * 96,
            bytes((i % 7) + 1 for i in range(96))]
    ng = 0
    for bi, buf in enumerate(bufs):
        for a in range(0, 17):
            for n in range(0, 41):
                b = a + n
                for name in FUNCS:
                    seed = FUNCS[name][1][(a + n) % len(FUNCS[name][1])]
                    got = int(drivers[name](buf, a, b, _seed_t(name, seed)))
                    exp = FUNCS[name][0](buf[a:b], seed)
                    rep.evals()
                    ng += 1
                    if got != exp:
                        rep.violation(
                            {"kind": "jitslice", "fn": name, "buf": buf, "a": a, "b": b, "seed": seed},
                            f"{name} of the jit-created slice buf[{a}:{b}] (len {n}) = {got:#x}, "
                            f"reference on the same bytes {exp:#x}: the value depends on how the "
                            f"bytes object was produced",
                        )
        rep.nontrivial(("g", bi))
    inputs += ng // 3
    rep.part("g_jit_slices", evaluations=ng)

    # (e) history independence
    keys = [k for n in (0, 1, 3, 7, 8, 9, 15, 16, 31, 64) for k in _patterns(n, salt)[2:4]]
    first = {}
    for name in FUNCS:
        seed = FUNCS[name][1][-1]
        first[name] = [int(impl[name](k, seed)) for k in keys]
    for name in reversed(list(FUNCS)):
        seed = FUNCS[name][1][-1]
        again = [int(impl[name](k, seed)) for k in reversed(keys)][::-1]
        # interleave the other two functions between calls
        inter = []
        for k in keys:
            for other in FUNCS:
                impl[other](k, 0)
            inter.append(int(impl[name](k, seed)))
        rep.evals(2 * len(keys))
        if again != first[name] or inter != first[name]:
            rep.violation(
                {"kind": "history", "fn": name},
                f"{name} value depends on call history",
            )
        rep.nontrivial(("e", name))

    # (f)
    mine = digest_a(impl, salt)
    theirs = _second_collect(child)
    rep.evals(258 * 6 * 18)
    if theirs != mine:
        rep.violation(
            {"kind": "process", "salt": salt},
            f"hash values differ between processes (digest {mine[:12]} vs {theirs[:12]})",
        )
    rep.nontrivial(("f", theirs[:8]))

    rep.set("states", inputs)
    rep.set("transitions", rep.cov["evaluations"])
    rep.set("traces_validated_against_impl", rep.cov["evaluations"])
    rep.set(
        "rule",
        "every (function, key, seed) of the enumerated domain is evaluated on the "
        "implementation and on the reference model M1; states = distinct byte strings, "
        "transitions = implementation evaluations; non-trivial = distinct (family, "
        "length/position/offset) classes covered",
    )
    rep.sample({"fn": "fasthash64", "key": b"\x00\x7f\x80\xff", "seed": 2**63})
    rep.sample({"family": "b", "len": L, "pos": L - 1, "all_256_values": True})
    rep.sample({"family": "f", "digest": mine})
    rep.assume("reference model M1 is anchored by the three SMHasher verification constants")


def replay(case):
    impl = _impl()
    k = case["kind"]
    if k == "hash":
        name = case["fn"]
        got = int(impl[name](case["key"], case["seed"]))
        exp = FUNCS[name][0](case["key"], case["seed"])
        return got != exp, {"got": got, "reference": exp}
    if k == "jitslice":
        name = case["fn"]
        got = int(_jit_drivers()[name](case["buf"], case["a"], case["b"],
                                       _seed_t(name, case["seed"])))
        exp = FUNCS[name][0](case["buf"][case["a"] : case["b"]], case["seed"])
        return got != exp, {"got": got, "reference": exp}
    if k == "smhasher":
        name = case["fn"]
        bits, mask, const = VERIF_VALUES[name]
        f = impl[name]
        got = M1.smhasher_verification(lambda k_, s: int(f(k_, s)), bits, mask)
        return got != const, {"got": got, "expected": const}
    if k == "history":
        name = case["fn"]
        seed = FUNCS[name][1][-1]
        keys = [b"", b"a", b"abcdefgh", b"\xff" * 17]
        a = [int(impl[name](x, seed)) for x in keys]
        b = [int(impl[name](x, seed)) for x in reversed(keys)][::-1]
        return a != b, {"first": a, "second": b}
    if k == "process":
        mine = digest_a(impl, case["salt"])
        theirs = _second_collect(_second_start(case["salt"]))
        return mine != theirs, {"this_process": mine, "second_interpreter": theirs}
    return False, {}
