"""C02 - HyperLogLog state depends only on the set of distinct keys.

E1 to FIXPOINT: the closed system of S real HyperLogLog sketches over a crafted
alphabet (keys sharing a register with different / equal ranks, a maximum-rank
key, the empty key, a long key) under add / add(value) / update(list) /
update(dict) / add_ngram / merge (incl. self-merge and merging a copy).  Oracle
in every reachable state: registers == M3(set of keys) byte for byte, and
query() is bit-identical to a fresh sketch fed each distinct key once.
Plus E3: every rank of every precision through the public add().
"""
import copy

import numpy as np

from .. import sk as SK
from ..bfs import E1, merge_stats
from ..common import MachineryError
from ..models import hashes as M1
from ..models import hll as M3

PROP = "C02"
LEVEL = "model_checking"


def windows(x, n):
    if len(x) <= n:
        return [x]
    return [x[i : i + n] for i in range(len(x) - n + 1)]


class HLLSys(E1):
    name = "hll"

    def init(self, cfg):
        self.cfg = cfg
        self.p, self.seed = cfg["p"], cfg["seed"]
        self.keys = [bytes(k) for k in cfg["keys"]]
        self.expect = {}
        if cfg.get("shared"):
            from ..common import quiet_shm

            quiet_shm()
        work = [SK.make("hll", self.p, self.seed, shared_memory=bool(cfg.get("shared")))
                for _ in range(cfg["S"])]
        return work, tuple(() for _ in range(cfg["S"]))

    def heal(self, work, caps):
        if not self.cfg.get("shared"):
            return
        from ..bfs import in_block, restore

        for i, sk in enumerate(work):
            if not in_block(sk.registers, sk.shm):
                # left behind by an earlier transition (reported there): start from a sound object
                work[i] = SK.make("hll", self.p, self.seed, shared_memory=True)
                restore(work[i], caps[i], self.skip)

    def events(self, model, depth):
        c = self.cfg
        S, K = c["S"], self.keys
        n = len(K)
        for s in range(S):
            for k in K:
                yield ("add", s, k)
            for k in K:
                yield ("addv", s, k, 7)
            for i in range(n):
                yield ("updl", s, (K[i], K[(i + 1) % n], K[i]))
            for i in range(n):
                yield ("updd", s, ((K[i], 5), (K[(i + 2) % n], 1)))
            for x, g in c.get("ngrams", ()):
                yield ("ngram", s, bytes(x), g)
            yield ("updit", s, (K[0], K[n - 1]))
            # update_ngram over a list holding a record longer than n, a shorter one and the
            # EMPTY record (added whole, like every record not longer than n)
            for x, g in c.get("ngrams", ())[:1]:
                yield ("updng", s, (bytes(x), K[1], b""), g)
        for s in range(S):
            for t in range(S):
                yield ("merge", s, t)
            yield ("mergecopy", s)

    def apply(self, work, model, ev):
        m = [set(x) for x in model]
        op = ev[0]
        probs = []
        if op == "add":
            work[ev[1]].add(ev[2])
            m[ev[1]].add(ev[2])
        elif op == "addv":
            work[ev[1]].add(ev[2], ev[3])
            m[ev[1]].add(ev[2])
        elif op == "updl":
            work[ev[1]].update([bytes(k) for k in ev[2]])
            m[ev[1]].update(bytes(k) for k in ev[2])
        elif op == "updit":
            # a one-shot iterable: it may be refused (TypeError), but if update() accepts it
            # the keys count
            try:
                work[ev[1]].update(iter([bytes(k) for k in ev[2]]))
                m[ev[1]].update(bytes(k) for k in ev[2])
            except TypeError:
                pass
        elif op == "updd":
            work[ev[1]].update({bytes(k): v for k, v in ev[2]})
            m[ev[1]].update(bytes(k) for k, _ in ev[2])
        elif op == "ngram":
            work[ev[1]].add_ngram(ev[2], ev[3])
            m[ev[1]].update(windows(ev[2], ev[3]))
        elif op == "updng":
            docs = [bytes(x) for x in ev[2]]
            work[ev[1]].update_ngram(docs, ev[3])
            for x in docs:
                m[ev[1]].update(windows(x, ev[3]))
        elif op == "merge":
            s, t = ev[1], ev[2]
            before = work[t].registers.tobytes()
            work[s].merge(work[t])
            if s != t and work[t].registers.tobytes() != before:
                probs.append(f"merge changed the argument sketch {t}")
            m[s] |= m[t]
        elif op == "mergecopy":
            s = ev[1]
            if self.cfg.get("shared"):
                # a second handle attached to the sketch's own block is merged into it
                view = SK.make("hll", self.p, self.seed)
                view.attach_existing_shm(work[s].shm.name)
                work[s].merge(view)
                del view
            else:
                work[s].merge(copy.deepcopy(work[s]))
        else:
            raise MachineryError(f"unknown event {ev}")
        return tuple(tuple(sorted(x)) for x in m), probs

    def touched(self, ev):
        return (ev[1], ev[2]) if ev[0] == "merge" else (ev[1],)

    def expected(self, keyset):
        e = self.expect.get(keyset)
        if e is None:
            regs = M3.registers(self.p, self.seed, keyset)
            fresh = SK.make("hll", self.p, self.seed)
            for k in keyset:
                fresh.add(k)
            try:
                fq = float(fresh.query())
            except Exception:
                fq = float("nan")
            e = self.expect[keyset] = (regs, fresh.registers.tobytes(), fq)
        return e

    def oracle(self, work, model):
        probs = []
        for s, sk in self.active(work):
            regs, fresh_regs, fresh_q = self.expected(model[s])
            got = sk.registers.tobytes()
            if self.cfg.get("shared"):
                # the state of a shared-memory sketch is its block: read it through a second handle
                view = SK.make("hll", self.p, self.seed)
                view.attach_existing_shm(sk.shm.name)
                vg = view.registers.tobytes()
                del view
                if vg != got:
                    probs.append(f"sketch {s}: a second handle attached to the shared block reads "
                                 f"other registers than the object itself")
            if got != regs:
                a = np.frombuffer(got, np.uint8)
                b = np.frombuffer(regs, np.uint8)
                i = int(np.nonzero(a != b)[0][0]) if len(a) == len(b) else -1
                probs.append(
                    f"sketch {s}: registers differ from max-rank-over-key-set model at "
                    f"register {i}: got {a[i] if i >= 0 else '?'}, model {b[i] if i >= 0 else '?'} "
                    f"(keys {[k[:10] for k in model[s]]})"
                )
            elif got != fresh_regs:
                probs.append(f"sketch {s}: registers differ from a fresh sketch fed each key once")
            try:
                q = float(sk.query())
            except Exception as e:
                probs.append(f"sketch {s}: query() raised {type(e).__name__}: {e}")
                continue
            if q != fresh_q and not (q != q and fresh_q != fresh_q):
                probs.append(
                    f"sketch {s}: query()={q!r} differs from fresh sketch of the distinct keys {fresh_q!r}"
                )
        return probs

    def nontrivial(self, work, model):
        for x in model:
            idx = [M3.idx_rank(M1.fasthash64(k, self.seed), self.p)[0] for k in x]
            if len(set(idx)) < len(idx):
                return True
        return False

    def outcome(self, work, model):
        return tuple(hash(w.registers.tobytes()) for w in work)


def alphabet(p, seed, nkeys, salt):
    m = 1 << p
    i0 = (0x5BD1E995 * (salt + 1)) % (m - 1)
    i1 = m - 1  # the LAST register (an off-by-one over the register range shows here)
    # one register with ranks r, r+1, r+1 (adjacent and equal), another holding
    # the maximum rank, a third with a rank two below a mid value, the empty key
    keys = [
        b"",
        M3.craft(p, seed, i0, 2),
        M3.craft(p, seed, i0, 3, 0),
        M3.craft(p, seed, i0, 3, 1),
        M3.craft(p, seed, i1, 64 - p + 1),
        M3.craft(p, seed, i1, 64 - p - 1),
    ]
    if nkeys > 6:
        keys.append(bytes((i * 11 + salt) & 0xFF for i in range(64)))
    return keys[:nkeys]


def configs(tier, seed):
    salt = seed % 1000
    out = []
    if tier == "quick":
        ps, seeds, nk, S = (7, 11, 16), (0, 2**63 + 1, 2**64 - 1), 5, 2
    else:
        ps, seeds, nk, S = tuple(range(7, 17)), (0, 2**63 + 1, 2**64 - 1), 6, 2
    for p in ps:
        for sd in seeds:
            keys = alphabet(p, sd, nk if p <= 12 else 5, salt)
            ng = [[keys[1] + keys[2], 8], [keys[3], 9]]
            out.append(dict(p=p, seed=sd, S=S, keys=keys, ngrams=ng, depth=14))
    # sketches living in shared memory, registers read through a second attached handle
    for p, sd in (((7, 0),) if tier == "quick" else ((7, 0), (10, 2**63 + 1), (16, 2**64 - 1))):
        keys = alphabet(p, sd, 4, salt)
        out.append(dict(p=p, seed=sd, S=2, keys=keys, ngrams=[[keys[1] + keys[2], 8]], depth=14,
                        shared=True))
    if tier == "thorough":
        for p, sd in ((7, 0), (9, 2**64 - 1), (11, 2**63 + 1)):
            keys = alphabet(p, sd, 7, salt)[1:]
            out.append(dict(p=p, seed=sd, S=3, keys=keys, ngrams=[], depth=24, events="lean"))
    return out


class HLLSys3(HLLSys):
    """3 sketches, 6 keys: only add and merge events (2^18 states, closes)."""

    def events(self, model, depth):
        S = self.cfg["S"]
        for s in range(S):
            for k in self.keys:
                yield ("add", s, k)
        for s in range(S):
            for t in range(S):
                yield ("merge", s, t)


def pool_size(tier):
    return 10 if tier == "quick" else 16


def task(arg):
    cfg, seed, tier = arg
    from ..pool import SubReporter

    sub = SubReporter(seed, tier)
    cls = HLLSys3 if cfg.get("events") == "lean" else HLLSys
    sysm = cls()
    st = sysm.explore(cfg, cfg["depth"], sub, time_cap=1500 if tier == "thorough" else 200)
    return cfg, st, sub.violations


def rank_sweep(rep):
    """E3: every precision x every rank x extreme hashes x register indices."""
    salt = rep.seed % 1000
    n = 0
    for p in range(7, 17):
        m = 1 << p
        for seed in (0, 2**64 - 1, 2**32 + salt):
            sk = SK.make("hll", p, seed)
            for rank in range(1, 64 - p + 2):
                for bits in M3.extreme_hashes(p, rank):
                    for idx in (0, m - 1, (salt * 7919 + rank) % m):
                        key = M1.craft8((bits << p) | idx, seed)
                        sk.registers[:] = 0
                        sk.add(key)
                        n += 1
                        rep.evals()
                        nz = np.nonzero(sk.registers)[0]
                        ok = len(nz) == 1 and int(nz[0]) == idx and int(sk.registers[idx]) == rank
                        if not ok:
                            got = [(int(i), int(sk.registers[i])) for i in nz[:3]]
                            rep.violation(
                                {"kind": "rank", "p": p, "seed": seed, "key": key,
                                 "idx": idx, "rank": rank},
                                f"p={p} seed={seed}: key with hash bits={bits:#x} idx={idx} must set "
                                f"register {idx} to {rank}; registers touched: {got}",
                            )
                rep.nontrivial(("rank", p, rank))
    rep.part("rank_sweep", cases=n)
    return n


ENTRY = ("add", "addv", "list", "tuple", "dict", "counter", "ngram", "upd_ngram")


def entry_case(p, seed, keys, entry):
    """The key set fed through ONE entry point on a fresh sketch: registers must be the
    max-rank-over-key-set model (keys with trailing / leading / only NUL bytes, the empty key)."""
    from collections import Counter

    keys = [bytes(k) for k in keys]
    sk = SK.make("hll", p, seed)
    n = max(len(k) for k in keys) + 1
    if entry == "add":
        for k in keys:
            sk.add(k)
    elif entry == "addv":
        for k in keys:
            sk.add(k, 3)
    elif entry == "list":
        sk.update(keys + keys[:1])
    elif entry == "tuple":
        sk.update(tuple(keys))
    elif entry == "dict":
        sk.update({k: 2 for k in keys})
    elif entry == "counter":
        sk.update(Counter(keys + keys))
    elif entry == "ngram":
        for k in keys:
            sk.add_ngram(k, n)  # n > len(key): the key is added whole
    else:
        sk.update_ngram(keys, n)
    want = M3.registers(p, seed, tuple(sorted(set(keys))))
    got = sk.registers.tobytes()
    if got == want:
        return False, {}
    a, b = np.frombuffer(got, np.uint8), np.frombuffer(want, np.uint8)
    d = np.nonzero(a != b)[0]
    return True, {"registers_differing": int(len(d)), "first": [int(d[0]), int(a[d[0]]), int(b[d[0]])]}


def nul_keys(rep):
    salt = rep.seed % 1000
    n = 0
    for p, seed in ((7, 0), (11, 2**63 + 1), (16, 2**64 - 1)):
        c = M3.craft(p, seed, (salt * 13 + 5) % (1 << p), 5)
        keys = [b"\x00", b"a\x00", b"a\x00\x00", b"\x00a", b"a", b"", c + b"\x00", c,
                b"\x00" * 8, b"\x00" * 9]
        for entry in ENTRY:
            for ks in ([k] for k in keys):
                bad, obs = entry_case(p, seed, ks, entry)
                n += 1
                rep.evals()
                if bad:
                    rep.violation({"kind": "entry", "p": p, "seed": seed, "keys": ks, "entry": entry},
                                  f"p={p} seed={seed}: key {ks[0]!r} through {entry}: registers "
                                  f"differ from the model (register, got, model) = {obs['first']}")
            bad, obs = entry_case(p, seed, keys, entry)
            n += 1
            rep.evals()
            rep.nontrivial(("entry", p, entry))
            if bad:
                rep.violation({"kind": "entry", "p": p, "seed": seed, "keys": keys, "entry": entry},
                              f"p={p} seed={seed}: {len(keys)} keys incl. NUL-terminated ones through "
                              f"{entry}: {obs['registers_differing']} registers differ from the model")
    rep.part("nul_keys_by_entry_point", cases=n)
    return n


def run(rep):
    from ..pool import run_tasks

    cfgs = configs(rep.tier, rep.seed)
    res = run_tasks(__name__, "task", [(c, rep.seed, rep.tier) for c in cfgs])
    all_closed = True
    for cfg, st, viol in res:
        rep.violations.extend(viol)
        name = f"hll-p{cfg['p']}-seed{cfg['seed']}-S{cfg['S']}-k{len(cfg['keys'])}"
        merge_stats(rep, name, {k: v for k, v in cfg.items() if k != "keys"}, st)
        all_closed &= st["closed"]
        if not st["closed"] and not viol:
            rep.not_exhaustive(f"{name}: search did not close within depth {cfg['depth']}")
        print(f"  {name}: states={st['states']} trans={st['transitions']} depth={st['depth']} "
              f"closed={st['closed']} nontrivial={st['nontrivial']} {st['wall_s']}s", flush=True)
    n = rank_sweep(rep)
    n += nul_keys(rep)
    rep.add("transitions", n)
    rep.add("traces_validated_against_impl", n)
    rep.set("closed", all_closed)
    rep.set(
        "rule",
        "state = registers of every real sketch + key set fed to each; BFS to fixpoint over "
        "add/add(value)/update(list)/update(dict)/add_ngram/merge(incl. self and copy); "
        "non-trivial = a sketch whose key set has two keys on one register; plus the rank sweep "
        "(every p, rank, extreme hash, 3 register indices, 3 seeds)",
    )
    rep.sample({"alphabet_p7_seed0": alphabet(7, 0, 6, rep.seed % 1000)})
    if not rep.violations and rep.cov.get("_nt_extra", 0) < 100:
        raise MachineryError("C02 exploration is vacuous: no register sharing")


def replay(case):
    if case.get("kind") == "entry":
        return entry_case(case["p"], case["seed"], case["keys"], case["entry"])
    if case.get("kind") == "rank":
        sk = SK.make("hll", case["p"], case["seed"])
        sk.add(case["key"])
        nz = np.nonzero(sk.registers)[0]
        got = [(int(i), int(sk.registers[i])) for i in nz[:5]]
        ok = got == [(case["idx"], case["rank"])]
        return (not ok), {"registers_touched": got, "expected": [case["idx"], case["rank"]]}
    cls = HLLSys3 if case["cfg"].get("events") == "lean" else HLLSys
    return cls().replay(case["cfg"], case["events"])
