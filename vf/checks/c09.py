"""C09 - merging count-min sketches adds the counts cell by cell, as documented.

E3 (exhaustive domain enumeration through the real merge()):
  log8   ALL 256 x 256 counter pairs for every configuration of a grid
         (tables written directly: a[i,j] = i, b[i,j] = j, one merge call)
  log16  all 65536 counters against the empty sketch, a band of rows x all 65536
         columns per configuration (quick) / ALL 2^32 pairs of the default
         configuration (thorough)
  linear all ordered pairs of a boundary alphabet + seeded tables near the ceiling
Oracle per cell: linear min(a+b, 2^32-1); log: exact sum inside the reserved
range, the maximum counter once the decoded sum reaches max_count, otherwise the
counter whose decoded value is nearest to decode(a)+decode(b) (a tie within 1e-9
accepts either neighbour).  decode() is read off the real sketch (query on a
one-cell sketch).  Also: b unchanged, bookkeeping summed (also for an argument
whose element counter is 0), commutativity, identity, monotonicity, linear
estimates super-additive; the same (max_count, num_reserved) used by both
counter widths in one process; tables wider than 4096 columns.
"""
import numpy as np

from .. import sk as SK
from ..common import U32, MachineryError

PROP = "C09"
LEVEL = "model_checking"

LOG8_GRID = [
    (2**32 - 1, 15), (2**32 - 1, 0), (2**32 - 1, 1), (2**32 - 1, 100), (2**32 - 1, 200),
    (300, 0), (300, 15), (300, 40), (1000, 2), (1000, 15), (1000, 100), (10**6, 0), (10**6, 15),
    (10**6, 200), (2**63, 15), (2**63, 100), (2**40, 1), (65536, 15), (4096, 253), (257, 0),
]
LOG16_GRID = [(2**32 - 1, 1023), (10**6, 2), (2**40, 0), (2**63, 15000), (10**5, 1023)]


def decode_table(kind, mc, nr):
    """decode(c) for every counter value, read through the public query()."""
    sk = SK.make(kind, 1, 1, mc, nr)
    top = int(sk.uint_maxval)
    dec = np.empty(top + 1, np.float64)
    for c in range(top + 1):
        sk.cms[0, 0] = c
        dec[c] = sk.query(b"")
    return dec


def expected_log(dec, nr, mc, A, B):
    """Vectorised oracle.  Returns (lo, hi): the result must be lo or hi."""
    top = len(dec) - 1
    v = dec[A] + dec[B]
    c = np.searchsorted(dec, v, side="right") - 1  # dec[c] <= v
    c = np.clip(c, 0, top)
    nxt = np.minimum(c + 1, top)
    span = dec[nxt] - dec[c]
    with np.errstate(divide="ignore", invalid="ignore"):
        frac = np.where(span > 0, (v - dec[c]) / span, 0.0)
    lo = np.where(frac > 0.5 + 1e-9, nxt, c)
    hi = np.where(frac >= 0.5 - 1e-9, nxt, c)
    # exact sum inside the reserved range
    small = v <= nr
    vi = np.where(small, v, 0.0).astype(np.int64)
    lo = np.where(small, vi, lo)
    hi = np.where(small, vi, hi)
    # the maximum counter once the sum reaches max_count
    big = v >= float(mc)
    lo = np.where(big, top, lo)
    hi = np.where(big, top, hi)
    # just below max_count the decoded ceiling may differ from max_count by the solver's
    # tolerance: then either of the two top counters is "nearest"
    near = (~big) & (v >= dec[top] * (1 - 1e-6))
    hi = np.where(near, top, hi)
    return lo, hi


PRE = []  # (kind, mc, nr) of log merges done earlier in this process, for replays


def _pre(kind, mc, nr):
    return [list(x) for x in PRE if x[0] != kind and (x[1], x[2]) == (mc, nr)][:2]


def regen(gen):
    """Rebuild the two counter tables of a recorded merge from its descriptor."""
    g = gen[0]
    if g == "pairs8":
        I = np.arange(256)
        return np.repeat(I[:, None], 256, axis=1), np.repeat(I[None, :], 256, axis=0)
    if g in ("band", "bandT"):
        rows = np.asarray(gen[1])
        J = np.arange(65536)
        A = np.repeat(rows[:, None], 65536, axis=1)
        B = np.repeat(J[None, :], len(rows), axis=0)
        return (A, B) if g == "band" else (B, A)
    if g == "ident16":
        J = np.arange(65536)[None, :]
        return J, np.zeros_like(J)
    if g == "wide":
        _, top, w, d, seed = gen
        rng = np.random.default_rng(seed)
        A = rng.integers(0, top + 1, (d, w))
        B = rng.integers(0, min(top, 300) + 1, (d, w))
        A[:, -3:] = (1, 2, top)
        return A, B
    if g == "lit":
        return np.array(gen[1]), np.array(gen[2])
    raise ValueError(gen)


def check_log(rep, kind, mc, nr, A, B, tag, gen=None):
    """A, B: 2-d integer arrays of counters.  One real merge; every cell checked."""
    if gen is None:
        gen = ["lit", A.tolist(), B.tolist()] if A.size <= 64 else None
    pre = [list(x) for x in PRE if x[0] != kind and (x[1], x[2]) == (mc, nr)][:2]
    if (kind, mc, nr) not in PRE:
        PRE.append((kind, mc, nr))
    dec = decode_table_cached(kind, mc, nr)
    d, w = A.shape
    a = SK.make(kind, w, d, mc, nr)
    b = SK.make(kind, w, d, mc, nr)
    a.cms[...] = A
    b.cms[...] = B
    a.n_added_records[:] = (11, 3)
    b.n_added_records[:] = (7, 2)
    b_before = (b.cms.tobytes(), b.n_added_records.tobytes())
    a.merge(b)
    R = a.cms.astype(np.int64)
    lo, hi = expected_log(dec, nr, mc, A.astype(np.int64), B.astype(np.int64))
    bad = ~((R == lo) | (R == hi))
    n = A.size
    rep.evals(n)
    if bad.any():
        i, j = (int(x) for x in np.argwhere(bad)[0])
        rep.violation(
            {"kind": "log", "kind_": kind, "mc": mc, "nr": nr, "a": int(A[i, j]), "b": int(B[i, j]),
             "shape": [int(d), int(w)], "pos": [i, j], "pre": pre, "gen": gen},
            f"{kind}(max_count={mc}, num_reserved={nr}): merge of counters {int(A[i,j])} and "
            f"{int(B[i,j])} gives {int(R[i,j])}, nearest-value rule gives {int(lo[i,j])}"
            + (f" or {int(hi[i,j])}" if hi[i, j] != lo[i, j] else "")
            + f" ({int(bad.sum())} bad cells in {tag})",
        )
    mono = (R < A) | (R < B)
    if mono.any():
        i, j = (int(x) for x in np.argwhere(mono)[0])
        rep.violation(
            {"kind": "log", "kind_": kind, "mc": mc, "nr": nr, "a": int(A[i, j]), "b": int(B[i, j]),
             "shape": [int(d), int(w)], "pos": [i, j], "pre": pre, "gen": gen},
            f"{kind}({mc},{nr}): merged counter {int(R[i,j])} is below an input "
            f"({int(A[i,j])}, {int(B[i,j])})",
        )
    if (b.cms.tobytes(), b.n_added_records.tobytes()) != b_before:
        rep.violation({"kind": "log-b", "kind_": kind, "mc": mc, "nr": nr, "pre": pre, "gen": gen},
                      f"{kind}({mc},{nr}): merge changed its argument")
    if tuple(int(x) for x in a.n_added_records) != (18, 5):
        rep.violation({"kind": "log-n", "kind_": kind, "mc": mc, "nr": nr, "pre": pre, "gen": gen},
                      f"{kind}({mc},{nr}): bookkeeping after merge is {a.n_added_records} not (18,5)")
    # same tables, but the argument's element counter is 0 (a worker that only counted
    # records, or a table written directly): cells and bookkeeping must still be summed
    a2 = SK.make(kind, w, d, mc, nr)
    a2.cms[...] = A
    a2.n_added_records[:] = (11, 3)
    b.n_added_records[:] = (0, 2)
    a2.merge(b)
    if not np.array_equal(a2.cms, a.cms) or tuple(int(x) for x in a2.n_added_records) != (11, 5):
        rep.violation({"kind": "log-n0", "kind_": kind, "mc": mc, "nr": nr, "pre": pre, "gen": gen},
                      f"{kind}({mc},{nr}): merging a sketch whose n_added() is 0 (n_records 2, "
                      f"non-empty table) does not add its cells / records: bookkeeping "
                      f"{a2.n_added_records}, cells equal: {bool(np.array_equal(a2.cms, a.cms))}")
    return R


_DEC = {}


def decode_table_cached(kind, mc, nr):
    k = (kind, mc, nr)
    if k not in _DEC:
        _DEC[k] = decode_table(kind, mc, nr)
    return _DEC[k]


def log8_all_pairs(rep, mc, nr):
    I = np.arange(256)
    A = np.repeat(I[:, None], 256, axis=1)
    B = np.repeat(I[None, :], 256, axis=0)
    R = check_log(rep, "log8", mc, nr, A, B, "all 256x256 pairs", gen=["pairs8"])
    if not np.array_equal(R, R.T):
        i, j = (int(x) for x in np.argwhere(R != R.T)[0])
        rep.violation({"kind": "log", "kind_": "log8", "mc": mc, "nr": nr, "a": i, "b": j,
                       "commut": True, "pre": _pre("log8", mc, nr)},
                      f"log8({mc},{nr}): merge is not commutative for counters {i},{j}: "
                      f"{int(R[i,j])} vs {int(R[j,i])}")
    if not np.array_equal(R[:, 0], I) or not np.array_equal(R[0, :], I):
        rep.violation({"kind": "log", "kind_": "log8", "mc": mc, "nr": nr, "a": 0, "b": 0,
                       "identity": True, "pre": _pre("log8", mc, nr)},
                      f"log8({mc},{nr}): merging with an empty counter changes the value")
    rep.nontrivial(("log8", mc, nr))
    return 65536


def log16_band(rep, mc, nr, rows):
    J = np.arange(65536)
    A = np.repeat(np.asarray(rows)[:, None], 65536, axis=1)
    B = np.repeat(J[None, :], len(rows), axis=0)
    R = check_log(rep, "log16", mc, nr, A, B, f"{len(rows)} rows x 65536",
                  gen=["band", [int(r) for r in rows]])
    # the same pairs the other way round (commutativity)
    R2 = check_log(rep, "log16", mc, nr, B, A, "transposed band", gen=["bandT", [int(r) for r in rows]])
    if not np.array_equal(R, R2):
        i, j = (int(x) for x in np.argwhere(R != R2)[0])
        rep.violation({"kind": "log", "kind_": "log16", "mc": mc, "nr": nr, "a": int(A[i, j]),
                       "b": int(B[i, j]), "commut": True, "pre": _pre("log16", mc, nr)},
                      f"log16({mc},{nr}): merge not commutative for {int(A[i,j])},{int(B[i,j])}")
    rep.nontrivial(("log16", mc, nr, len(rows)))
    return 2 * A.size


def band_rows(nr, n, salt):
    top = 65535
    base = {0, 1, 2, nr - 1, nr, nr + 1, nr + 2, top - 2, top - 1, top, 1023, 1024, 32768}
    base = {r for r in base if 0 <= r <= top}
    step = max(1, top // (n - len(base)))
    rows = set(base)
    r = salt % step
    while len(rows) < n and r <= top:
        rows.add(r)
        r += step
    return sorted(rows)


def single_cell_merges(rep):
    """Every counter pair again, but each pair in its OWN merge of two one-cell sketches:
    whatever a merge derives from the table as a whole (maximum, emptiness, sums) is then
    a function of that one pair.  log8: all 65 536 pairs x 2 configurations; log16: the
    pairs whose sum sits around 2^16 and around the reserved boundary."""
    n = 0
    for kind, mc, nr in (("log8", 2**32 - 1, 15), ("log8", 10**6, 100), ("log16", 2**32 - 1, 1023)):
        dec = decode_table_cached(kind, mc, nr)
        top = len(dec) - 1
        a = SK.make(kind, 1, 1, mc, nr)
        b = SK.make(kind, 1, 1, mc, nr)
        if kind == "log8":
            pairs = ((x, y) for x in range(256) for y in range(256))
        else:
            xs = list(range(0, 65536, 257)) + [32767, 32768, 32769, 65535]
            pairs = ((x, y) for x in xs for y in
                     {65536 - x, 65536 - x + 1, min(65535, 65536 - x + nr), max(0, nr - x), max(0, nr + 1 - x), 0, 1, top}
                     if 0 <= y <= top)
        A, B, R = [], [], []
        for x, y in pairs:
            a.cms[0, 0] = x
            b.cms[0, 0] = y
            a.n_added_records[:] = (x, 1)
            b.n_added_records[:] = (y, 2)
            a.merge(b)
            A.append(x)
            B.append(y)
            R.append(int(a.cms[0, 0]))
            if int(b.cms[0, 0]) != y or tuple(int(v) for v in a.n_added_records) != (x + y, 3):
                rep.violation({"kind": "cell1", "kind_": kind, "mc": mc, "nr": nr, "a": x, "b": y},
                              f"{kind}({mc},{nr}) one-cell merge of {x} and {y}: argument changed or "
                              f"bookkeeping {a.n_added_records} is not the sum")
        A, B, R = np.array(A), np.array(B), np.array(R)
        lo, hi = expected_log(dec, nr, mc, A, B)
        bad = ~((R == lo) | (R == hi))
        n += len(A)
        rep.evals(len(A))
        if bad.any():
            i = int(np.argwhere(bad)[0][0])
            rep.violation({"kind": "cell1", "kind_": kind, "mc": mc, "nr": nr, "a": int(A[i]), "b": int(B[i])},
                          f"{kind}({mc},{nr}): merging two ONE-CELL sketches holding {int(A[i])} and "
                          f"{int(B[i])} gives {int(R[i])}, nearest-value rule gives {int(lo[i])} "
                          f"({int(bad.sum())} bad pairs)")
        rep.nontrivial(("cell1", kind, mc, nr))
    # an argument with an all-zero table that carries records (a worker whose records
    # yielded no keys)
    for kind in ("linear", "log16", "log8"):
        a = SK.make(kind, 3, 2)
        b = SK.make(kind, 3, 2)
        a.add(b"x", 2)
        a.n_added_records[1] = 5
        b.n_added_records[1] = 7
        a.merge(b)
        n += 1
        if int(a.n_records()) != 12 or int(a.n_added()) != 2:
            rep.violation({"kind": "zero-records", "kind_": kind},
                          f"{kind}: merging an empty-table sketch with n_records()=7 into one with 5 "
                          f"gives n_records()={int(a.n_records())} (must be 12)")
    return n


def linear_part(rep):
    vals = [0, 1, 2, 2**31, 2**32 - 3, 2**32 - 2, 2**32 - 1]
    n = len(vals)
    A = np.repeat(np.array(vals, np.uint32)[:, None], n, axis=1)
    B = np.repeat(np.array(vals, np.uint32)[None, :], n, axis=0)
    rng = np.random.default_rng(rep.seed + 5)
    tables = [(A, B)]
    for _ in range(6):
        d, w = int(rng.integers(1, 9)), int(rng.integers(1, 65))
        X = rng.integers(0, 2**32, (d, w), dtype=np.uint64)
        Y = rng.integers(0, 2**32, (d, w), dtype=np.uint64)
        near = rng.random((d, w)) < 0.4
        X = np.where(near, 2**32 - 1 - rng.integers(0, 3, (d, w)), X).astype(np.uint32)
        Y = np.where(rng.random((d, w)) < 0.4, rng.integers(0, 4, (d, w)), Y).astype(np.uint32)
        tables.append((X, Y))
    # wide tables: more columns than any internal block size, not multiples of it, primes
    for d, w in ((1, 4097), (2, 6145), (1, 10007), (3, 4096), (1, 16385), (2, 8191)):
        X = rng.integers(0, 2**20, (d, w), dtype=np.uint64).astype(np.uint32)
        Y = rng.integers(1, 2**20, (d, w), dtype=np.uint64).astype(np.uint32)
        X[:, -3:] = (7, 2**32 - 2, 2**31)  # the LAST columns of every row carry tell-tale values
        Y[:, -3:] = (5, 9, 2**31)
        tables.append((X, Y))
    cells = 0
    for X, Y in tables:
        d, w = X.shape
        a = SK.make("linear", w, d)
        b = SK.make("linear", w, d)
        a.cms[...] = X
        b.cms[...] = Y
        a.n_added_records[:] = (2**40, 5)
        b.n_added_records[:] = (3, 2**33)
        keys = [b"k%d" % i for i in range(12)]
        ea = [int(a.query(k)) for k in keys]
        eb = [int(b.query(k)) for k in keys]
        bb = (b.cms.tobytes(), b.n_added_records.tobytes())
        a.merge(b)
        exp = np.minimum(X.astype(np.uint64) + Y.astype(np.uint64), U32).astype(np.uint32)
        cells += X.size
        rep.evals(X.size)
        if not np.array_equal(a.cms, exp):
            i, j = (int(x) for x in np.argwhere(a.cms != exp)[0])
            rep.violation({"kind": "linear", "a": int(X[i, j]), "b": int(Y[i, j]), "seed": rep.seed,
                           "shape": [d, w], "cell": [i, j]},
                          f"linear {w}x{d} merge: cell ({i},{j}) holding {int(X[i,j])} merged with "
                          f"{int(Y[i,j])} gives {int(a.cms[i,j])}, expected {int(exp[i,j])}")
        if (b.cms.tobytes(), b.n_added_records.tobytes()) != bb:
            rep.violation({"kind": "linear-b", "seed": rep.seed}, "linear merge changed its argument")
        if tuple(int(x) for x in a.n_added_records) != (2**40 + 3, 5 + 2**33):
            rep.violation({"kind": "linear-n", "seed": rep.seed},
                          f"linear merge bookkeeping {a.n_added_records} is not the sum")
        a2 = SK.make("linear", w, d)
        a2.cms[...] = X
        a2.n_added_records[:] = (9, 1)
        b.n_added_records[:] = (0, 4)
        a2.merge(b)
        if not np.array_equal(a2.cms, exp) or tuple(int(x) for x in a2.n_added_records) != (9, 5):
            rep.violation({"kind": "linear-n0", "seed": rep.seed},
                          f"linear: merging a sketch whose n_added() is 0 (n_records 4, non-empty "
                          f"table) does not add its cells / records: {a2.n_added_records}")
        for k, x, y in zip(keys, ea, eb):
            if int(a.query(k)) < min(x + y, U32):
                rep.violation({"kind": "linear-super", "seed": rep.seed},
                              f"merged linear estimate of {k!r} = {int(a.query(k))} is below "
                              f"min(sum of estimates, 2^32-1) = {min(x+y, U32)}")
        rep.nontrivial(("linear", X.shape))
    return cells


def pool_size(tier):
    return 0 if tier == "quick" else 16


def full_task(arg):
    """thorough: all 2^32 pairs of the default log16 configuration, a block of rows."""
    lo, hi, seed = arg
    from ..pool import SubReporter
    from ..common import StopExploration

    class R(SubReporter):
        def __init__(self):
            super().__init__(seed, "thorough")
            self.n = 0

        def evals(self, n=1):
            self.n += n

        def nontrivial(self, t):
            pass

    r = R()
    try:
        J = np.arange(65536)
        for s in range(lo, hi, 128):
            rows = np.arange(s, min(hi, s + 128))
            A = np.repeat(rows[:, None], 65536, axis=1)
            B = np.repeat(J[None, :], len(rows), axis=0)
            check_log(r, "log16", 2**32 - 1, 1023, A, B, f"rows {s}..{s+len(rows)-1} x all",
                      gen=["band", [int(x) for x in rows]])
    except StopExploration:
        pass
    return r.n, r.violations


def run(rep):
    salt = rep.seed % 97
    cells = 0
    grid8 = LOG8_GRID if rep.tier == "thorough" else LOG8_GRID
    ok8 = 0
    for mc, nr in grid8:
        try:
            SK.make("log8", 1, 1, mc, nr)
        except ValueError:
            continue  # configuration rejected by the constructor (C18's business)
        ok8 += 1
        cells += log8_all_pairs(rep, mc, nr)
    rep.part("log8", configurations=ok8, pairs_each=65536)
    if ok8 < 15:
        raise MachineryError("most log8 configurations of the C09 grid are rejected")
    g16 = LOG16_GRID if rep.tier == "thorough" else LOG16_GRID[:2]
    for mc, nr in g16:
        rows = band_rows(nr, 96 if rep.tier == "quick" else 256, salt)
        cells += log16_band(rep, mc, nr, rows)
        # identity: all 65536 counters against the empty sketch
        J = np.arange(65536)[None, :]
        R = check_log(rep, "log16", mc, nr, J, np.zeros_like(J), "identity", gen=["ident16"])
        cells += 65536
        if not np.array_equal(R, J):
            rep.violation({"kind": "log", "kind_": "log16", "mc": mc, "nr": nr, "a": 1, "b": 0,
                           "identity": True, "pre": _pre("log16", mc, nr)},
                          f"log16({mc},{nr}): merging an empty sketch changes counters")
    rep.part("log16", configurations=len(g16))
    if rep.tier == "thorough":
        from ..pool import run_tasks

        step = 2048
        res = run_tasks(__name__, "full_task", [(s, s + step, rep.seed) for s in range(0, 65536, step)])
        tot = 0
        for n, viol in res:
            tot += n
            rep.violations.extend(viol)
        rep.evals(tot)
        cells += tot
        rep.part("log16_all_pairs_default", pairs=tot)
        rep.nontrivial(("log16-full", tot))
    # the same (max_count, num_reserved) pair used by BOTH counter widths in one process,
    # 16-bit first (anything keyed on the pair alone must not leak between the two types)
    for mc, nr in ((10**6, 2), (2**32 - 1, 15)):
        rows = band_rows(nr, 24, salt)
        cells += log16_band(rep, mc, nr, rows)
        cells += log8_all_pairs(rep, mc, nr)
    # wide tables (more columns than any internal block size; not a multiple of 4096)
    for wi, (kind, top, w, d) in enumerate((("log8", 255, 5000, 3), ("log16", 65535, 10000, 2),
                                            ("log8", 255, 4097, 1))):
        gen = ["wide", top, w, d, rep.seed + 9 + wi]
        A, B = regen(gen)
        R = check_log(rep, kind, 2**32 - 1, 15 if kind == "log8" else 1023, A, B, f"wide {w}x{d}",
                      gen=gen)
        cells += A.size
        rep.nontrivial(("wide", kind, w))
    cells += single_cell_merges(rep)
    cells += linear_part(rep)
    rep.set("states", cells)
    rep.set("transitions", cells)
    rep.set("traces_validated_against_impl", cells)
    rep.sample({"kind": "log8", "max_count": 1000, "num_reserved": 2, "a": 17, "b": 201})
    rep.sample({"kind": "log16", "max_count": 2**32 - 1, "num_reserved": 1023, "a": 65534, "b": 3})
    rep.sample({"kind": "linear", "a": 2**32 - 2, "b": 2})
    rep.set(
        "rule",
        "states = (configuration, counter a, counter b) triples, every one merged by the real "
        "merge() kernel and compared with the nearest-decoded-value rule; decode() is read off the "
        "real sketch; non-trivial = distinct configurations / bands covered",
    )
    if cells < 10**6:
        raise MachineryError("C09 covered too few cells")


def replay(case):
    k = case["kind"]
    if k == "log":
        from ..pool import SubReporter

        class R(SubReporter):
            def evals(self, n=1):
                pass

        r = R(max_violations=100)
        PRE.clear()
        # merges of the OTHER counter width with the same (max_count, num_reserved) that
        # happened earlier in the process are part of the history
        for pk, pmc, pnr in case.get("pre", []):
            check_log(r, pk, pmc, pnr, np.array([[1, 2]]), np.array([[2, 1]]), "replay-pre")
        r.violations = []
        d, w = case.get("shape", [1, 2])
        i, j = case.get("pos", [0, 0])
        if case.get("gen"):
            # the very tables of the recorded merge (what a merge derives from the table as a
            # whole is part of the input)
            A, B = regen(case["gen"])
        else:
            A = np.zeros((d, w), np.int64)
            B = np.zeros((d, w), np.int64)
            A[i, j], B[i, j] = case["a"], case["b"]
            if (d, w) == (1, 2):
                A[0, 1], B[0, 1] = case["b"], case["a"]
        R_ = check_log(r, case["kind_"], case["mc"], case["nr"], A, B, "replay", gen=case.get("gen"))
        bad = bool(r.violations)
        if case.get("commut"):
            A2, B2 = B.copy(), A.copy()
            R2_ = check_log(r, case["kind_"], case["mc"], case["nr"], A2, B2, "replay")
            bad = bad or int(R_[i, j]) != int(R2_[i, j])
        if case.get("identity"):
            J = np.arange(len(decode_table_cached(case["kind_"], case["mc"], case["nr"])))[None, :]
            R2 = check_log(r, case["kind_"], case["mc"], case["nr"], J, np.zeros_like(J), "identity")
            bad = bad or not np.array_equal(R2, J)
        return bool(bad), {"merged": int(R_[i, j]), "problems": [m for _, m in r.violations][:3]}
    # linear and bookkeeping cases: rerun the linear part
    from ..pool import SubReporter

    class R2(SubReporter):
        seed = 0

        def evals(self, n=1):
            pass

        def nontrivial(self, t):
            pass

    r = R2(max_violations=100000)
    r.seed = case.get("seed", 0)
    if k in ("cell1", "zero-records"):
        single_cell_merges(r)
        want = {kk: case[kk] for kk in ("kind", "kind_", "mc", "nr", "a", "b") if kk in case}
        hits = [m for c, m in r.violations if all(c.get(kk) == v for kk, v in want.items())]
        return bool(hits), {"problems": hits[:3]}
    if k.startswith("linear"):
        linear_part(r)
    else:
        check_log(r, case["kind_"], case["mc"], case["nr"], np.array([[1, 2]]), np.array([[3, 4]]), "replay")
    if k in ("log-n0", "log-n", "log-b"):
        r.violations = []
        PRE.clear()
        for pk, pmc, pnr in case.get("pre", []):
            check_log(r, pk, pmc, pnr, np.array([[1, 2]]), np.array([[2, 1]]), "replay-pre")
        r.violations = []
        if case.get("gen"):
            A, B = regen(case["gen"])
        else:
            A, B = np.array([[1, 2]]), np.array([[3, 4]])
        check_log(r, case["kind_"], case["mc"], case["nr"], A, B, "replay", gen=case.get("gen"))
    hits = [m for c, m in r.violations if c["kind"] == k]
    return bool(hits), {"problems": hits[:3]}
