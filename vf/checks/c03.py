"""C03 - heavy hitters never over-count and never report a key that was not added.

E1 BFS over real HeavyHitters objects (vf/checks/hh_common.py) with oracle T1:
every hh[q] for alphabet keys / NUL-aliases / never-added keys and every
(key, count) of query(inf, t), t in {None, 0, 1}, is <= the true count of that
exact key (identity = first max_key_len bytes, length sensitive).
"""
import shutil

from ..bfs import merge_stats
from ..common import tmpdir, MachineryError
from . import hh_common as H

PROP = "C03"
LEVEL = "model_checking"
MODE = "c03"


def configs(tier, seed):
    out = []
    if tier == "quick":
        for args in ([1, 1, 2], [2, 1, 2], [1, 2, 3], [2, 2, 4]):
            out.append(dict(args=args, S=2, mults=[1, 2], depth=3))
            out.append(dict(args=args, S=2, mults=[2], depth=4, ngrams=[]))
        # boundary multiplicities: 0 (a no-op that must stay one), 2^32-1 and beyond
        for args in ([1, 1, 2], [2, 2, 3]):
            out.append(dict(args=args, S=2, mults=[0, 1, 2**32 - 1, 2**32 + 5], depth=3,
                            keep=[0, 2, 5], ngrams=[], saveload=False))
    else:
        for args in ([1, 1, 2], [2, 1, 2], [1, 2, 3], [2, 2, 4], [3, 2, 1], [2, 3, 16], [1, 4, 2]):
            out.append(dict(args=args, S=2, mults=[1, 2], depth=4))
            out.append(dict(args=args, S=2, mults=[2], depth=5, ngrams=[]))
        for args in ([1, 1, 2], [2, 2, 3]):
            out.append(dict(args=args, S=2, mults=[0, 1, 3, 2**32 - 1, 2**32 + 5], depth=3))
        out.append(dict(args=[1, 1, 2], S=3, mults=[1, 2], depth=3))
        out.append(dict(args=[1, 2, 2], S=4, mults=[1], depth=4, saveload=False, ngrams=[]))
    return out


def prepare(cfg, seed):
    cfg = dict(cfg)
    keys, ng = H.hh_alphabet(cfg["args"], seed)
    if cfg.get("keep"):
        # a small sub-alphabet (by role: 0 stem, 1 stem+NUL, 2 empty, 3 all-NUL, 4 long,
        # 5 other, 6 stem+'z') so that a deeper history fits the budget
        keys = [keys[i] for i in cfg["keep"] if i < len(keys)]
    cfg["keys"] = keys
    cfg.setdefault("ngrams", ng)
    return cfg


def pool_size(tier):
    return 9 if tier == "quick" else 16


def task(arg):
    cfg, seed, tier, mode = arg
    from ..pool import SubReporter

    sub = SubReporter(seed, tier)
    scratch = tmpdir()
    try:
        cfg = prepare(cfg, seed)
        st = H.HHSys(scratch, mode).explore(
            cfg, cfg["depth"], sub, time_cap=1200 if tier == "thorough" else 150
        )
    finally:
        shutil.rmtree(scratch, ignore_errors=True)
    return cfg, st, sub.violations


def run_mode(rep, mode, cfgs, modname):
    from ..pool import run_tasks

    res = run_tasks(modname, "task", [(c, rep.seed, rep.tier, mode) for c in cfgs])
    for cfg, st, viol in res:
        rep.violations.extend(viol)
        name = f"hh-{cfg['args']}-S{cfg['S']}-m{len(cfg['mults'])}"
        merge_stats(rep, name, cfg, st)
        print(f"  {name}: D={st['depth']} states={st['states']} trans={st['transitions']} "
              f"nontrivial={st['nontrivial']} {st['wall_s']}s", flush=True)
    rep.set("closed", False)
    if not rep.violations and rep.cov.get("_nt_extra", 0) < 50:
        raise MachineryError(f"{mode} exploration is vacuous: no cell sharing")
    rep.assume("keys outside the alphabet behave like alphabet keys with the same collision "
               "pattern and the same length/padding class")


LONG = (255, 256, 257, 1024, 4095, 4096, 4097, 8192, 12288)


def long_case(args, n, how):
    """update() with a LONG batch (lengths around powers of two / multiples of 4096, where a
    chunking implementation has its edges) on a fresh sketch: nothing may be counted twice."""
    from collections import Counter
    from .. import sk as SK

    keys = [b"a", b"b", b"a\x00"[: args[2]], b""]
    lst = [keys[(i * i + i // 5) % len(keys)] for i in range(n)]
    true = Counter(lst)
    sk = SK.make("hh", *args)
    if how == "list":
        sk.update(lst)
    elif how == "tuple":
        sk.update(tuple(lst))
    else:
        sk.update(dict(true))
    probs = []
    for k in set(keys) | {b"never"}:
        c = int(sk[k])
        if c > true.get(k, 0):
            probs.append(f"hh[{k!r}] = {c} exceeds the true count {true.get(k, 0)}")
    for k, c in sk.query(10**6, 0):
        if int(c) > true.get(k, 0):
            probs.append(f"query reports ({k!r}, {int(c)}), true count {true.get(k, 0)}")
    return bool(probs), {"problems": probs[:3]}


def long_batches(rep):
    n = 0
    for args in ([1, 1, 2], [4, 2, 3]):
        for ln in LONG:
            for how in ("list", "tuple", "dict"):
                bad, obs = long_case(args, ln, how)
                n += 1
                rep.evals()
                rep.nontrivial(("long", tuple(args), ln, how))
                if bad:
                    rep.violation({"part": "long", "args": args, "n": ln, "how": how},
                                  f"hh{args}.update({how} of {ln} keys): {obs['problems'][0]}")
    rep.add("transitions", n)
    rep.add("traces_validated_against_impl", n)
    rep.part("long_batches", cases=n)


NAMES = (("shard.0", "shard.1", "shard.2"), ("hh_phi0.01", "hh_phi0.05"), ("v1.2", "v1.10"),
         ("plain_a", "plain_b"), ("a.npz", "b.npz"), ("x.tar.0", "x.tar.1"))


def names_case(names, args):
    """Several sketches saved side by side under the given names (save() appends '.npz' to a
    name that lacks it, like numpy), each loaded back - by '<name>.npz' if that file exists,
    else by the name itself.  Whatever a loaded sketch reports must have been added to THE
    sketch saved under that name (a key never added to it is never reported)."""
    import os
    from ..common import tmpdir as _tmpdir
    from .. import sk as SK

    d = _tmpdir()
    probs = []
    try:
        truth = {}
        for i, nm in enumerate(names):
            sk = SK.make("hh", *args)
            keys = {b"s%d" % i: 5 + i, b"c": 1 + i}
            for k, v in keys.items():
                sk.add(k, v)
            truth[nm] = keys
            sk.save(os.path.join(d, nm))
        for nm in names:
            path = os.path.join(d, nm)
            cand = [path] if nm.endswith(".npz") else [path + ".npz", path]
            L = None
            err = None
            for c in cand:
                try:
                    L = SK.classes()["hh"].load(c)
                    break
                except Exception as e:  # noqa
                    err = e
            if L is None:
                probs.append(f"the sketch saved as {nm!r} cannot be loaded back "
                             f"({type(err).__name__}: {str(err)[:80]})")
                continue
            t = truth[nm]
            for k, c in L.query(10**6, 0):
                if int(c) > t.get(k, 0):
                    probs.append(f"sketch saved as {nm!r}: after load, query reports ({k!r}, {int(c)}) "
                                 f"but its own history holds {t.get(k, 0)} of that key")
            for other in truth.values():
                for k in other:
                    if int(L[k]) > t.get(k, 0):
                        probs.append(f"sketch saved as {nm!r}: after load, hh[{k!r}] = {int(L[k])}, true "
                                     f"count in its own history {t.get(k, 0)}")
            del L
    finally:
        shutil.rmtree(d, ignore_errors=True)
    return bool(probs), {"problems": probs[:3]}


def side_by_side_files(rep):
    n = 0
    for names in NAMES:
        for args in ([4, 2, 3], [1, 1, 2]):
            bad, obs = names_case(names, args)
            n += 1
            rep.evals()
            rep.nontrivial(("names", names[0], tuple(args)))
            if bad:
                rep.violation({"part": "names", "names": list(names), "args": args},
                              f"hh{args}, files {list(names)}: {obs['problems'][0]}")
    rep.add("transitions", n)
    rep.add("traces_validated_against_impl", n)
    rep.part("side_by_side_files", cases=n)


def run(rep):
    run_mode(rep, MODE, configs(rep.tier, rep.seed), __name__)
    long_batches(rep)
    side_by_side_files(rep)
    rep.set(
        "rule",
        "state = full concrete state of every real HeavyHitters (tables + query cache) + true "
        "count per key identity; BFS over add/add_ngram/merge/save+load; oracle T1 on hh[q] for "
        "alphabet, NUL-aliases and never-added keys and on query(inf,t); non-trivial state = two "
        "identities with positive counts share a cell",
    )


def replay(case):
    if case.get("part") == "long":
        return long_case(case["args"], case["n"], case["how"])
    if case.get("part") == "names":
        return names_case(tuple(case["names"]), case["args"])
    scratch = tmpdir()
    try:
        return H.HHSys(scratch, MODE).replay(case["cfg"], case["events"])
    finally:
        shutil.rmtree(scratch, ignore_errors=True)
