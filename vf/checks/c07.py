"""C07 - HyperLogLog estimate stays within the HLL++ error envelope of the truth.

Level: exploration.  Complete enumeration of a FIXED grid with deterministic
inputs: every cell of p in 7..16 x a seed list x an n-grid (0,1,2,3,5,... log
spaced to 40*2^p, plus floor(threshold[p])+-1 and 5*2^p+-1, plus the 200 knots of
the bias-correction tables and the midpoints between them); keys are
deterministic families (8-byte counters offset by VERIF_SEED; a variable-length
family), fed through the public update(); estimates are read at checkpoints of
one monotone build per (p, seed).
Oracle per cell: n = 0 -> exactly 0.0; while m*ln(m/(m-n)) <= threshold[p] (then
at most n registers are occupied, linear counting is certainly the branch and it
is monotone in the number of occupied registers) est <= m*ln(m/(m-n)); otherwise
|est-n|/n <= 8 * 1.04/sqrt(m).
This decides the envelope for those cells only; the exhaustive statements about
the same code are C02 (registers) and C17 (estimator).
"""
import math

from .. import sk as SK
from ..common import MachineryError

PROP = "C07"
LEVEL = "exploration"
K = 8.0


def n_grid(p, thr):
    m = 1 << p
    g = {0, 1, 2, 3, 5}
    x = 10.0
    while x <= 40 * m:
        g.add(int(x))
        x *= 1.45
    g |= {40 * m, int(thr) - 1, int(thr), int(thr) + 1, 5 * m - 1, 5 * m, 5 * m + 1, m, m // 2,
          2 * m, 3 * m}
    # the bias-corrected regime [threshold, 5m] at the resolution of the shipped correction
    # tables: their 200 knots lie (to within 1) at threshold + k*(5m-threshold)/199; every knot
    # and every midpoint is a cell, so each table entry decides at least one estimate
    for k2 in range(0, 2 * 199 + 1):
        g.add(int(thr + k2 * (5 * m - thr) / 398.0))
    return sorted(v for v in g if v >= 0)


def seeds_for(p, tier, seed):
    base = [0, 1, 2**63 + 17 + seed, 2**64 - 1]
    if tier == "quick":
        return base + [2**32 + seed, 0xDEADBEEFCAFEF00D ^ seed, 12345 + seed, 2**63 - 1 - seed]
    n = 600 if p <= 12 else 120
    return base + [(0x9E3779B97F4A7C15 * (i + 1 + seed)) & (2**64 - 1) for i in range(n)]


def keys(family, off, lo, hi):
    if family == 0:
        return [(off + i).to_bytes(8, "little") for i in range(lo, hi)]
    return [(b"%d:" % (off + i)) * ((i % 3) + 1) for i in range(lo, hi)]


def build(var, p, sd, shared):
    """(feeder, reader, keepalive).  Variant 2: numpy-typed constructor arguments; variant 4: the
    keys are fed through update_ngram into a VIEW attached to a shared-memory owner and the
    estimate is read from the owner."""
    import numpy as _np

    if var == 2:
        sk = SK.make("hll", _np.uint8(p), _np.uint64(sd))
        return sk, sk, None
    if var == 4:
        owner = SK.make("hll", p, sd, shared_memory=True)
        view = SK.make("hll", p, sd)
        view.attach_existing_shm(owner.shm.name)
        return view, owner, None
    sk = SK.make("hll", p, sd, shared_memory=shared)
    return sk, sk, None


def feed(sk, var, batch):
    if var == 3:
        try:
            sk.update(iter(batch))  # may be refused, but must not be dropped
        except TypeError:
            sk.update(batch)
    elif var == 4:
        sk.update_ngram(batch, 8)  # 8-byte keys, n = 8: every key is added whole
    else:
        sk.update(batch)


def via_file(sk, p, sd):
    """Variant 5: the estimate of the same key set after save -> load(shared_memory=True),
    read through a second handle attached to the loaded sketch's block."""
    import os
    import tempfile

    fd, path = tempfile.mkstemp(suffix=".npz", dir="/dev/shm")
    os.close(fd)
    try:
        sk.save(path)
        L = type(sk).load(path, True)
        v = SK.make("hll", p, sd)
        v.attach_existing_shm(L.shm.name)
        est = float(v.query())
        del v, L
        return est
    finally:
        os.unlink(path)


def task(arg):
    p, seed, tier = arg
    from ..common import quiet_shm

    quiet_shm()
    from sketchnu import hll_constants as hc

    thr = float(hc.sub_algorithm_threshold[p - 7])
    m = 1 << p
    grid = n_grid(p, thr)
    cells = 0
    viol = []
    worst = 0.0
    regimes = set()
    samples = []
    for si, sd in enumerate(seeds_for(p, tier, seed)):
        # one seed per precision is built in shared memory (same estimates are required)
        # seed #2 is constructed with numpy-typed arguments (p as the narrowest type that holds
        # it), seed #3 is fed through one-shot iterators
        sk, reader, _ = build(si, p, sd, si == 1)
        fam = si % 2
        off = (seed * 1000003 + si * 7919) % 2**40
        done = 0
        for n in grid:
            while done < n:
                step = min(n - done, 200000)
                feed(sk, si, keys(fam, off, done, done + step))
                done += step
            cells += 1
            case = {"p": p, "seed": sd, "n": n, "family": fam, "offset": off, "shared": si == 1,
                    "variant": si}
            try:
                est = float(reader.query())
                if si == 4 and float(sk.query()) != est:
                    viol.append((case, f"p={p} seed={sd} n={n}: the attached view estimates "
                                       f"{float(sk.query())}, the owner of the block {est}"))
                if si == 5 and n in (0, int(thr), m, 5 * m, grid[-1]):
                    est2 = via_file(sk, p, sd)
                    if est2 != est:
                        viol.append((case, f"p={p} seed={sd} n={n}: estimate {est}, but {est2} after "
                                           f"save -> load(shared_memory=True) -> attached handle"))
            except Exception as e:
                viol.append((case, f"p={p} seed={sd} n={n}: query() raised {type(e).__name__}: {e}"))
                continue
            if n == 0:
                regimes.add("empty")
                if est != 0.0:
                    viol.append((case, f"p={p} seed={sd}: empty sketch estimates {est!r}"))
                continue
            lc = m * math.log(m / (m - n)) if n < m else float("inf")
            if lc <= thr:
                regimes.add("linear-bound")
                if est > lc * (1 + 1e-12):
                    viol.append((case, f"p={p} seed={sd} n={n}: estimate {est} exceeds the "
                                       f"linear-counting value {lc} for n occupied registers"))
            else:
                regimes.add("envelope" if n <= 5 * m else "envelope-raw")
                dev = abs(est - n) / n / (1.04 / math.sqrt(m))
                worst = max(worst, dev)
                if dev > K:
                    viol.append((case, f"p={p} seed={sd} n={n}: estimate {est} is {dev:.1f} "
                                       f"standard errors (1.04/sqrt(m)) from the truth"))
            if len(samples) < 2 and n in (5 * m, int(thr)):
                samples.append(dict(case, estimate=est))
    return p, cells, sorted(regimes), worst, viol[:3], samples


def pool_size(tier):
    return 10


def run(rep):
    from ..pool import run_tasks

    res = run_tasks(__name__, "task", [(p, rep.seed, rep.tier) for p in range(7, 17)])
    worst = 0.0
    for p, cells, regimes, w, viol, samples in res:
        rep.evals(cells)
        for r in regimes:
            rep.nontrivial((p, r))
        rep.violations.extend(viol)
        worst = max(worst, w)
        for s in samples:
            rep.sample(s, limit=6)
        rep.part(f"p{p}", cells=cells, regimes=regimes, worst_deviation_in_std_errors=round(w, 3))
        print(f"  p={p}: {cells} cells, regimes {regimes}, worst deviation {w:.2f} std errors", flush=True)
    rep.set("worst_deviation_in_std_errors", round(worst, 3))
    rep.set(
        "rule",
        "cell = (precision, seed, n) of a fixed grid with deterministic key families; every cell "
        "evaluated on a real sketch built through update(); distinct non-trivial = distinct "
        "(precision, regime) pairs covered (empty / linear-counting bound / envelope below 5m / "
        "envelope above 5m)",
    )
    rep.assume("decides the envelope only for the enumerated cells; k = 8 standard errors")
    if len(rep._nontrivial) < 35 and not rep.violations:
        raise MachineryError("C07 grid does not reach every regime for every precision")


def replay(case):
    """Replays the HISTORY of the cell: the same monotone build, queried at every grid
    checkpoint up to n (an estimate may depend on earlier queries of the same object)."""
    from sketchnu import hll_constants as hc
    from ..common import quiet_shm

    quiet_shm()
    p, sd, n = case["p"], case["seed"], case["n"]
    thr = float(hc.sub_algorithm_threshold[p - 7])
    m = 1 << p
    var = case.get("variant", 0)
    sk, reader, _ = build(var, p, sd, bool(case.get("shared")))
    done = 0
    est = None
    mism = None
    for g in [x for x in n_grid(p, thr) if x <= n]:
        while done < g:
            step = min(g - done, 200000)
            feed(sk, var, keys(case["family"], case["offset"], done, done + step))
            done += step
        try:
            est = float(reader.query())
            if var == 4 and g == n and float(sk.query()) != est:
                mism = {"view": float(sk.query()), "owner": est}
            if var == 5 and g == n and g in (0, int(thr), m, 5 * m, n_grid(p, thr)[-1]):
                e2 = via_file(sk, p, sd)
                if e2 != est:
                    mism = {"estimate": est, "after_load_shared_attach": e2}
        except Exception as e:
            if g == n:
                return True, {"query_raised": type(e).__name__}
    if mism is not None:
        return True, mism
    del reader
    del sk
    if n == 0:
        return est != 0.0, {"estimate": est}
    lc = m * math.log(m / (m - n)) if n < m else float("inf")
    if lc <= thr:
        return est > lc * (1 + 1e-12), {"estimate": est, "linear_counting_bound": lc}
    dev = abs(est - n) / n / (1.04 / math.sqrt(m))
    return dev > K, {"estimate": est, "std_errors": dev}
