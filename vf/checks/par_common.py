"""Shared harness for C08 / C19: runs the REAL sketchnu.helpers.parallel_add under
the simulated spawn context (vf/sched.py), builds the sequential reference, and
evaluates the oracles.  Callbacks are module-level (they are pickled by
reference when the simulated process starts, like under real spawn)."""
import os
import sys

import numpy as np

from .. import sk as SK
from ..common import U32
from ..models import cm as M2
from ..models import hll as M3
from ..sched import Sim, SimExit, SimDeadlock, SimHang

KEYS = [b"a", b"a\x00", b"", b"\x00\x00", b"bb", b"k5", b"k6", b"zz"]


# ---------------------------------------------------------------- callbacks
def cb_update(item, *sketches, table=None, plan=None, die=None, record_dir=None, state=None):
    """The user callback.  The queue items are plain record NUMBERS 0..k-1 (so the first
    one is falsy, like a shard index); table[j] = {"id": j, "keys": {key: mult}, "ret": r}.
    plan[j] in {"ok","before","after"}: raise before touching / after updating.
    die = (worker_id, k, how): that worker (any worker if worker_id == -1) exits (os._exit
    model) on the k-th item it takes."""
    item = table[item]
    j = item["id"]
    wid = sys._getframe(1).f_locals.get("worker_id")
    if record_dir is not None:
        with open(os.path.join(record_dir, f"w{wid}.log"), "a") as f:
            f.write(f"{j}\n")
    if state is not None:
        state["taken"] = state.get("taken", 0) + 1
    if die is not None and (die[0] == -1 or wid == die[0]) and state is not None \
            and state["taken"] == die[1]:
        code = die[3] if len(die) > 3 else 3
        if die[2] == "sim":
            raise SimExit(code)
        if code < 0:
            os.kill(os.getpid(), -code)
        os._exit(code)
    mode = (plan or {}).get(j, "ok")
    if mode == "before":
        raise RuntimeError(f"callback refuses item {j}")
    if mode == "bare":
        raise KeyError()  # an exception without any message, before touching the sketches
    if mode == "oserr":
        raise FileNotFoundError(2, "No such file or directory")  # args = (int, str)
    if mode == "intarg":
        raise KeyError(5)  # a single non-string argument
    for sk in sketches:
        sk.update(item["keys"])
    if mode == "after":
        raise RuntimeError(f"callback fails after updating with item {j}")
    return item["ret"]


def make_items(k, salt=0, width_keys=6):
    """Table of k records; record j adds 1-3 keys of a colliding alphabet with small
    multiplicities and returns the distinct power of two 2^j (as int or numpy.int64).  For k >= 3 the last record
    yields NO keys but is still counted (a document whose tokens were all filtered)."""
    items = []
    if salt == "heavy":
        # a key whose total multiplicity exceeds 2^32-1 although every record stays below it:
        # split across workers the partial counts only meet in a merge
        for j in range(k):
            ks = {KEYS[0]: 2**31 + 5} if j < 2 else {KEYS[4]: 1 + j}
            items.append({"id": j, "keys": ks, "ret": 2**j})
        return items
    for j in range(k):
        ks = {}
        for t in range(1 + (j + salt) % 3):
            key = KEYS[(j * 2 + t + salt) % width_keys]
            ks[key] = ks.get(key, 0) + 1 + (j + t) % 3
        if k >= 3 and j == k - 1:
            ks = {}
        # every second record reports its count as a numpy integer (e.g. len of an array slice)
        items.append({"id": j, "keys": ks, "ret": 2**j if j % 2 == 0 else np.int64(2**j)})
    return items


ARG_SETS = {
    "cms": dict(cms_args={"cms_type": "linear", "width": 2, "depth": 2}),
    "hh": dict(hh_args={"width": 2, "depth": 2, "max_key_len": 2}),
    "hll": dict(hll_args={"p": 7, "seed": 5}),
}


def arg_combo(names, cms_type="linear"):
    out = {}
    for n in names:
        out.update({k: dict(v) for k, v in ARG_SETS[n].items()})
    if "cms_args" in out and cms_type != "linear":
        out["cms_args"] = {"cms_type": cms_type, "width": 2, "depth": 2, "max_count": 10**6,
                           "num_reserved": 200}
    return out


ALL_COMBOS = [("cms",), ("hh",), ("hll",), ("cms", "hh"), ("cms", "hll"), ("hh", "hll"),
              ("cms", "hh", "hll")]


# ---------------------------------------------------------------- one execution
def snapshot(result, names):
    """Observable outcome of parallel_add: tables + bookkeeping of every returned sketch."""
    if not isinstance(result, tuple):
        result = (result,)
    out = {}
    for n, sk in zip(sorted(names), result):
        out[n] = {"class": type(sk).__name__, "tables": SK.tables(sk)}
        if n != "hll":
            out[n]["n_added"] = int(sk.n_added())
            out[n]["n_records"] = int(sk.n_records())
    return out, result


def run_sim(table, n_workers, names, assign=None, choices=(), cms_type="linear", kwargs=None,
            horizon=30000, want_objects=False, order=None, items=None, cpu_count=1):
    """One complete execution of the real parallel_add under the simulator.
    table: list of records (make_items); the queue items are their numbers, in `order`
    (default 0..k-1) - or `items` verbatim (used for the generator probe).
    Returns dict(outcome=..., error=..., sched=...)."""
    import sketchnu.helpers as H

    args = arg_combo(names, cms_type)
    if items is None:
        items = list(order) if order is not None else list(range(len(table)))
    kwargs = dict(kwargs or {})
    kwargs["table"] = table
    res = {"outcome": None, "error": None}
    sim = Sim(choices=choices, assign=assign, horizon=horizon, cpu_count=cpu_count)
    objs = None
    with sim:
        try:
            r = H.parallel_add(items, cb_update, n_workers=n_workers, **args, **(kwargs or {}))
            res["outcome"], objs = snapshot(r, names)
        except (SimDeadlock, SimHang) as e:
            res["error"] = (type(e).__name__, str(e)[:300])
        except Exception as e:  # noqa
            res["error"] = (type(e).__name__, str(e)[:300])
    s = sim.sched
    res["points"] = list(s.points)
    res["taken"] = list(s.taken)
    res["delivered"] = list(s.delivered)
    res["steps"] = s.steps
    res["worker_exit"] = {getattr(p, "worker_id"): p.exitcode for p in s.procs
                          if hasattr(p, "worker_id")}
    res["proc_errors"] = [(p.name, type(p.error).__name__, str(p.error)[:200]) for p in s.procs
                          if p.error is not None]
    if want_objects:
        res["objects"] = objs
    else:
        del objs
    return res


# ---------------------------------------------------------------- reference / oracles
class Reference:
    """Sequential truth for a list of items (those that count)."""

    def __init__(self, names, cms_type="linear"):
        self.names = names
        self.args = arg_combo(names, cms_type)
        self.cms_type = cms_type
        self._probes = {}

    def fresh(self, n):
        from sketchnu.countmin import CountMin
        from sketchnu.heavyhitters import HeavyHitters
        from sketchnu.hyperloglog import HyperLogLog

        if n == "cms":
            return CountMin(**self.args["cms_args"])
        if n == "hh":
            return HeavyHitters(**self.args["hh_args"])
        return HyperLogLog(**self.args["hll_args"])

    def probe(self, n):
        if n not in self._probes:
            table = "cms" if n == "cms" else "lhh_count"
            self._probes[n] = M2.Probe(lambda: self.fresh(n), table=table)
        return self._probes[n]

    def true_counts(self, items):
        t = {}
        for it in items:
            for k, v in it["keys"].items():
                t[k] = t.get(k, 0) + v
        return t

    def hll_registers(self, items):
        a = self.args["hll_args"]
        keys = set()
        for it in items:
            keys.update(it["keys"])
        return M3.registers(a["p"], a.get("seed", 0), keys)


def check_outcome(ref, outcome, objects, must, may, records_expected, label=""):
    """Oracles of C08 (must == may == all items) and C19 (must = items that succeeded,
    may = must + items that failed after updating).
    Returns a list of problem strings."""
    probs = []
    names = ref.names
    t_must = ref.true_counts(must)
    t_may = ref.true_counts(may)
    n_must = sum(t_must.values())
    n_may = sum(t_may.values())
    objs = dict(zip(sorted(names), objects))
    if "hll" in names:
        got = dict(outcome["hll"]["tables"])["registers"]
        lo = ref.hll_registers(must)
        hi = ref.hll_registers(may)
        g = np.frombuffer(got, np.uint8)
        if len(g) != len(lo):
            probs.append("hll: wrong number of registers")
        else:
            l_ = np.frombuffer(lo, np.uint8)
            h_ = np.frombuffer(hi, np.uint8)
            if (g < l_).any():
                i = int(np.nonzero(g < l_)[0][0])
                probs.append(f"hll register {i} = {g[i]} is below the sequential sketch's {l_[i]}: "
                             f"some item's keys are missing")
            if (g > h_).any():
                i = int(np.nonzero(g > h_)[0][0])
                probs.append(f"hll register {i} = {g[i]} exceeds the sequential sketch's {h_[i]}")
    for n in ("cms", "hh"):
        if n not in names:
            continue
        o = outcome[n]
        cut = n == "cms" and max(list(t_may.values()) + [0]) > U32
        if cut:
            # a linear add that hits the ceiling is cut short (and so is n_added, C05): only the
            # upper limit is judged when some key's total exceeds 2^32-1
            if o["n_added"] > n_may:
                probs.append(f"cms: n_added() = {o['n_added']} exceeds the total multiplicity {n_may}")
        elif not (n_must <= o["n_added"] <= n_may):
            probs.append(f"{n}: n_added() = {o['n_added']}, total multiplicity added is "
                         f"{n_must}" + (f"..{n_may}" if n_may != n_must else ""))
        if o["n_records"] != records_expected:
            probs.append(f"{n}: n_records() = {o['n_records']}, sum of the callback's return "
                         f"values is {records_expected}")
    if "cms" in names:
        sk = objs["cms"]
        pr = ref.probe("cms")
        depth = int(sk.depth)
        for k in sorted(set(t_may) | {b"never"}):
            est = float(sk.query(k))
            lo = min(t_must.get(k, 0), U32)
            ck = pr.cols(k)
            hi = min(
                sum(v for k2, v in t_may.items() if pr.cols(k2)[r] == ck[r]) for r in range(depth)
            )
            if est < lo or est > min(hi, U32):
                probs.append(f"cms: estimate {est} of {k!r} outside [{lo}, {hi}] (C01 bounds "
                             f"w.r.t. the whole stream)")
    if "hh" in names:
        sk = objs["hh"]
        pr = ref.probe("hh")
        depth = int(sk.depth)
        L = int(sk.max_key_len)
        idt = {}
        idm = {}
        for k, v in t_may.items():
            idt[k[:L]] = idt.get(k[:L], 0) + v
        for k, v in t_must.items():
            idm[k[:L]] = idm.get(k[:L], 0) + v
        for x in sorted(set(idt) | {b"nv"[:L]}):
            c = int(sk[x])
            if c > idt.get(x, 0):
                probs.append(f"hh[{x!r}] = {c} exceeds the true count {idt.get(x, 0)}")
        for x, c in sk.query(10**6, 0):
            if int(c) > idt.get(x, 0):
                probs.append(f"hh query reports ({x!r},{int(c)}), true count {idt.get(x, 0)}")
        if must is may or len(must) == len(may):
            # C04 lower bound w.r.t. the whole stream (exact multiset known)
            cell = {}
            for x, v in idm.items():
                cx = pr.cols(x)
                for r in range(depth):
                    cell[(r, cx[r])] = cell.get((r, cx[r]), 0) + v
            for x, f in idm.items():
                cx = pr.cols(x)
                b = max(2 * f - cell[(r, cx[r])] for r in range(depth))
                if b > 0 and int(sk[x]) < b:
                    probs.append(f"hh[{x!r}] = {int(sk[x])} is below max_r(2f - W_r) = {b}")
    return probs
