"""C13 - query(k, threshold) is the exact, fresh top-k of the stored counts.

E1 BFS over real HeavyHitters objects in which query(.., t) is itself a
state-changing EVENT (it rewrites the candidate cache, which is part of the
captured state), interleaved with add / add_ngram / merge / save+load.  At
every query event (k = 1 is asked first, then inf, 1, 2, 3): <= k pairs, distinct
keys, non-increasing, each count ==
hh[key] and >= threshold, first-k consistency, completeness for added keys
with hh[key] >= max(threshold,1), and equality with a freshly loaded copy.
"""
import shutil

import numpy as np

from ..common import MachineryError, tmpdir
from . import hh_common as H
from . import c03

PROP = "C13"
LEVEL = "model_checking"
MODE = "c13"

TH = [None, 0, 1, 2, 2**32 - 1]


def phi_boundary():
    """Explicit phi whose default threshold floor(phi*n) sits exactly ON an integer for a
    reachable n (0.7*10, 0.01*200, 0.3*10): a copy whose phi is off in the last bits (a narrower
    float on the way through the file) answers the default-threshold query differently."""
    return [
        dict(args=[4, 2, 2, 0.7], S=1, mults=[1, 3, 6], depth=3, thresholds=[None, 2], keep=[0, 5],
             ngrams=[]),
        dict(args=[4, 2, 2, 0.01], S=1, mults=[1, 199], depth=2, thresholds=[None], keep=[0, 5],
             ngrams=[]),
        dict(args=[4, 2, 2, 0.3], S=1, mults=[3, 7], depth=2, thresholds=[None], keep=[0, 5],
             ngrams=[]),
        # nearly empty WIDE sketches: 0 < phi * n_added() < 1, i.e. the default threshold is 0
        dict(args=[4, 2, 2], S=1, mults=[1, 2], depth=3, thresholds=[None, 0], keep=[0, 5, 6],
             ngrams=[]),
        dict(args=[8, 1, 2], S=1, mults=[1], depth=6, thresholds=[None], keep=[0, 5, 6],
             ngrams=[], saveload=False),
        dict(args=[16, 2, 3, 0.05], S=2, mults=[1, 3], depth=3, thresholds=[None], keep=[0, 5],
             ngrams=[], saveload=False),
    ]


def configs(tier, seed):
    out = phi_boundary()
    if tier == "quick":
        for args in ([1, 1, 2], [2, 1, 2], [1, 2, 3], [2, 2, 4]):
            out.append(dict(args=args, S=2, mults=[1, 2], depth=3, thresholds=TH, keep=[0, 1, 2, 3, 5]))
        out.append(dict(args=[2, 2, 2], S=1, mults=[1, 2], depth=4, thresholds=TH, keep=[0, 1, 2, 5, 6]))
    else:
        for args in ([1, 1, 2], [2, 1, 2], [1, 2, 3], [2, 2, 4], [3, 2, 1], [2, 3, 16], [1, 4, 2],
                     [8, 2, 2]):
            out.append(dict(args=args, S=2, mults=[1, 2], depth=4, thresholds=TH))
        for args in ([2, 2, 2], [3, 1, 3]):
            out.append(dict(args=args, S=1, mults=[1, 2, 7], depth=5, thresholds=TH))
        out.append(dict(args=[2, 2, 2, 0.3], S=2, mults=[1, 3], depth=4, thresholds=TH))
    return out


def pool_size(tier):
    return 11 if tier == "quick" else 16


def task(arg):
    return c03.task(arg)


POOLKEYS = [b"a", b"c", b"d", b"e", b"f", b"g", b"h", b"i"]


def wsweep_case(w, m, phi, scratch):
    """Default threshold on the rounding edge.  One real sketch of width w (depth 1) holding a
    heavy key and a light key whose count m-1 is exactly one below n_added()/w = m.  The
    documented default is floor(phi * n_added()) with phi the sketch's float (1/w by default):
    where that product falls just below the integer m the light key belongs to the answer,
    where it reaches m it does not - an integer n_added()//w, a re-derived phi or a float32 phi
    move the edge.  query() is judged by the full C13 oracle of the history explorer."""
    from .. import sk as SK

    args = [w, 1, 2] + ([] if phi is None else [phi])
    sk = SK.make("hh", *args)
    n = m * w
    heavy = b"b"
    sk.add(heavy, n - (m - 1))
    true = {heavy: n - (m - 1)}
    light = None
    if m > 1:
        for k in POOLKEYS:
            before = int(sk[heavy])
            sk.add(k, m - 1)
            if int(sk[k]) == m - 1 and int(sk[heavy]) == before:
                light = k
                true[k] = m - 1
                break
            # shared the heavy key's cell: start again with the next candidate
            sk = SK.make("hh", *args)
            sk.add(heavy, n - (m - 1))
    hs = H.HHSys(scratch, MODE)
    probs = hs.query_event(sk, true, 0, None)
    t_eff = int(np.uint32(float(sk.phi) * int(sk.n_added())))
    ans = sk.query(H.INF)
    if sorted((k, int(c)) for k, c in ans) != sorted((k, int(c)) for k, c in sk.query(H.INF, t_eff)):
        probs.append(f"query() = {ans} differs from query(inf, floor(phi*n_added()) = {t_eff})")
    return probs, (light is not None, t_eff == m - 1)


def width_sweep(rep):
    """E3: every width 2..W x every m = n_added()/width in 1..M, default phi, plus explicit phi =
    1/w; ~5% of the widths have float(1/w)*m*w < m for some m, which is where an integer
    re-derivation of the threshold disagrees with the documented float product."""
    W, M = (200, 8) if rep.tier == "quick" else (1200, 16)
    scratch = tmpdir()
    n = edge = 0
    try:
        for w in range(2, W + 1):
            for m in range(1, M + 1):
                for phi in (None, 1.0 / w):
                    probs, (has_light, on_edge) = wsweep_case(w, m, phi, scratch)
                    n += 1
                    rep.evals()
                    if has_light:
                        rep.nontrivial(("ws", w, m, phi is None))
                    edge += on_edge
                    if probs:
                        rep.violation({"part": "wsweep", "w": w, "m": m, "phi": phi},
                                      f"hh[{w},1,2{'' if phi is None else ', phi=1/w'}] with n_added() = "
                                      f"{m}*{w}: {probs[0]}")
    finally:
        shutil.rmtree(scratch, ignore_errors=True)
    rep.add("transitions", n)
    rep.add("traces_validated_against_impl", n)
    rep.part("default-threshold-width-sweep", widths=[2, W], m=[1, M], cases=n,
             cases_with_float_product_below_integer=edge)
    print(f"  default-threshold width sweep: {n} cases, {edge} on the rounding edge", flush=True)
    if not rep.violations and edge < 5:
        raise MachineryError("C13 width sweep never reached a rounding edge")


def run(rep):
    width_sweep(rep)
    c03.run_mode(rep, MODE, configs(rep.tier, rep.seed), __name__)
    rep.set(
        "rule",
        "state = tables + query cache (candidate_set, n_added_sort, threshold_sort) of every real "
        "sketch + true counts; events add/add_ngram/merge/save+load/query(t) for t in "
        "{None,0,1,2,2^32-1}; all of k in {1,2,3,inf} are evaluated at each query event; "
        "non-trivial state = two identities with positive counts share a cell",
    )


def replay(case):
    scratch = tmpdir()
    try:
        if case.get("part") == "wsweep":
            probs, _ = wsweep_case(case["w"], case["m"], case["phi"], scratch)
            return bool(probs), {"problems": probs[:3]}
        return H.HHSys(scratch, MODE).replay(case["cfg"], case["events"])
    finally:
        shutil.rmtree(scratch, ignore_errors=True)
