"""C13 - query(k, threshold) is the exact, fresh top-k of the stored counts.

E1 BFS over real HeavyHitters objects in which query(.., t) is itself a
state-changing EVENT (it rewrites the candidate cache, which is part of the
captured state), interleaved with add / add_ngram / merge / save+load.  At
every query event (k = 1 is asked first, then inf, 1, 2, 3): <= k pairs, distinct
keys, non-increasing, each count ==
hh[key] and >= threshold, first-k consistency, completeness for added keys
with hh[key] >= max(threshold,1), and equality with a freshly loaded copy.
"""
import shutil

from ..common import tmpdir
from . import hh_common as H
from . import c03

PROP = "C13"
LEVEL = "model_checking"
MODE = "c13"

TH = [None, 0, 1, 2, 2**32 - 1]


def phi_boundary():
    """Explicit phi whose default threshold floor(phi*n) sits exactly ON an integer for a
    reachable n (0.7*10, 0.01*200, 0.3*10): a copy whose phi is off in the last bits (a narrower
    float on the way through the file) answers the default-threshold query differently."""
    return [
        dict(args=[4, 2, 2, 0.7], S=1, mults=[1, 3, 6], depth=3, thresholds=[None, 2], keep=[0, 5],
             ngrams=[]),
        dict(args=[4, 2, 2, 0.01], S=1, mults=[1, 199], depth=2, thresholds=[None], keep=[0, 5],
             ngrams=[]),
        dict(args=[4, 2, 2, 0.3], S=1, mults=[3, 7], depth=2, thresholds=[None], keep=[0, 5],
             ngrams=[]),
        # nearly empty WIDE sketches: 0 < phi * n_added() < 1, i.e. the default threshold is 0
        dict(args=[4, 2, 2], S=1, mults=[1, 2], depth=3, thresholds=[None, 0], keep=[0, 5, 6],
             ngrams=[]),
        dict(args=[8, 1, 2], S=1, mults=[1], depth=6, thresholds=[None], keep=[0, 5, 6],
             ngrams=[], saveload=False),
        dict(args=[16, 2, 3, 0.05], S=2, mults=[1, 3], depth=3, thresholds=[None], keep=[0, 5],
             ngrams=[], saveload=False),
    ]


def configs(tier, seed):
    out = phi_boundary()
    if tier == "quick":
        for args in ([1, 1, 2], [2, 1, 2], [1, 2, 3], [2, 2, 4]):
            out.append(dict(args=args, S=2, mults=[1, 2], depth=3, thresholds=TH, keep=[0, 1, 2, 3, 5]))
        out.append(dict(args=[2, 2, 2], S=1, mults=[1, 2], depth=4, thresholds=TH, keep=[0, 1, 2, 5, 6]))
    else:
        for args in ([1, 1, 2], [2, 1, 2], [1, 2, 3], [2, 2, 4], [3, 2, 1], [2, 3, 16], [1, 4, 2],
                     [8, 2, 2]):
            out.append(dict(args=args, S=2, mults=[1, 2], depth=4, thresholds=TH))
        for args in ([2, 2, 2], [3, 1, 3]):
            out.append(dict(args=args, S=1, mults=[1, 2, 7], depth=5, thresholds=TH))
        out.append(dict(args=[2, 2, 2, 0.3], S=2, mults=[1, 3], depth=4, thresholds=TH))
    return out


def pool_size(tier):
    return 11 if tier == "quick" else 16


def task(arg):
    return c03.task(arg)


def run(rep):
    c03.run_mode(rep, MODE, configs(rep.tier, rep.seed), __name__)
    rep.set(
        "rule",
        "state = tables + query cache (candidate_set, n_added_sort, threshold_sort) of every real "
        "sketch + true counts; events add/add_ngram/merge/save+load/query(t) for t in "
        "{None,0,1,2,2^32-1}; all of k in {1,2,3,inf} are evaluated at each query event; "
        "non-trivial state = two identities with positive counts share a cell",
    )


def replay(case):
    scratch = tmpdir()
    try:
        return H.HHSys(scratch, MODE).replay(case["cfg"], case["events"])
    finally:
        shutil.rmtree(scratch, ignore_errors=True)
