"""C18 - counters saturate at their ceiling; they never wrap around.

E1 near the ceiling (real objects, vf/checks/cm_common.py mode "mono" and
hh_common.py mode "c18"):
  linear      multiplicities {1,3,2^32-4,2^32-1,2^40}: estimates within +-3 of the
              ceiling from below and beyond, repeated after saturation, merges
  heavy hit.  same multiplicities; a key that fills its cells alone is counted
              exactly min(true, 2^32-1); counts never exceed the truth
  log8/log16  max_count=1000/num_reserved=10 reached with all-advance draws
              (log8) and start states written 0..3 below the ceiling (log16);
              further adds and merges keep the estimate at the ceiling
  every event: no estimate is lowered; a key at its ceiling stays there.
E3 constructor grid: for every (max_count, num_reserved) of the grid the
constructor raises ValueError or the maximum counter decodes to max_count
(relative 1e-6, the repository's own pytest.approx tolerance); log16 and log8
are also constructed with the same explicit pair in one process, in both orders.
"""
import shutil

from .. import sk as SK
from ..bfs import merge_stats
from ..common import tmpdir, MachineryError, U32
from . import cm_common as C
from . import hh_common as H
from . import c01

PROP = "C18"
LEVEL = "model_checking"

MC = [255, 256, 257, 300, 301, 511, 1000, 4096, 65536, 10**6, 2**31, 2**32 - 1, 2**32,
      2**40, 2**53, 2**62, 2**63, 2**64 - 1]


def cm_configs(tier):
    near = [1, 3, 2**32 - 4, 2**32 - 1, 2**40]
    out = []
    D = 3 if tier == "quick" else 4
    for w, d in ([(1, 1), (2, 2)] if tier == "quick" else [(1, 1), (2, 2), (3, 2), (2, 3)]):
        out.append(dict(kind="linear", args=[w, d], S=2, mults=near, ngrams=[[b"\x00\x00", 1]],
                        depth=D))
    for w, d in [(1, 1), (2, 2)]:
        out.append(dict(kind="log8", args=[w, d, 1000, 10], S=2, mults=[1, 3, 300], ngrams=[],
                        depth=D, saveload=False))
        out.append(dict(kind="log16", args=[w, d, 10**6, 10], S=2, mults=[1, 3], ngrams=[],
                        depth=D, saveload=False, near_top=True))
    # the DEFAULT log16 configuration and one whose ceiling decodes a hair below max_count
    for a in ([1, 1], [2, 2, 70000, 15]):
        out.append(dict(kind="log16", args=a, S=2, mults=[1], ngrams=[], depth=2 if tier == "quick" else 3,
                        saveload=False, near_top=True))
    return out


def hh_configs(tier):
    near = [1, 3, 2**32 - 4, 2**32 - 1, 2**32 + 5]
    out = []
    D = 3 if tier == "quick" else 4
    for args in ([[1, 1, 2], [2, 2, 3]] if tier == "quick" else [[1, 1, 2], [2, 2, 3], [3, 2, 2]]):
        out.append(dict(args=args, S=2, mults=near, depth=D, ngrams=[]))
    return out


def pool_size(tier):
    return 10 if tier == "quick" else 16


def task(arg):
    what, cfg, seed, tier = arg
    from ..pool import SubReporter

    sub = SubReporter(seed, tier)
    scratch = tmpdir()
    try:
        if what == "cm":
            cfg = C.with_alphabet(cfg, seed)
            sysm = C.CMSys(scratch, ("mono",))
            extra = None
            if cfg.get("near_top"):
                A, B = cfg["keys"][0], cfg["keys"][1]
                top = 65535
                mc_ = int(cfg["args"][2]) if len(cfg["args"]) > 2 else 2**32 - 1
                extra = [[("set", 0, A, top - 3, mc_ - 200)], [("set", 0, A, top - 1, mc_ - 60),
                         ("set", 1, B, top, mc_)], [("set", 1, A, top - 2, mc_ - 130)],
                         [("set", 0, A, top, mc_)], [("set", 0, A, top, mc_), ("set", 1, A, top, mc_)]]
            st = sysm.explore(cfg, cfg["depth"], sub, time_cap=1200 if tier == "thorough" else 150,
                              extra_init=extra)
            name = C.label(cfg)
        else:
            keys, ng = H.hh_alphabet(cfg["args"], seed)
            cfg = dict(cfg)
            cfg["keys"] = [keys[0], keys[1], keys[-1]]
            cfg["dict_updates"] = True
            st = H.HHSys(scratch, "c18").explore(
                cfg, cfg["depth"], sub, time_cap=1200 if tier == "thorough" else 150)
            name = f"hh-{cfg['args']}-S{cfg['S']}"
    finally:
        shutil.rmtree(scratch, ignore_errors=True)
    for case, _ in sub.violations:
        case["what"] = what
    return name, cfg, st, sub.violations


def decode_top(kind, mc, nr):
    """None if the constructor rejects the configuration with ValueError, else the
    decoded value of the maximum counter (read through the public query)."""
    try:
        sk = SK.make(kind, 1, 1, mc, nr)
    except ValueError:
        return None
    sk.cms[0, 0] = sk.uint_maxval
    return float(sk.query(b"x"))


def grid_task(arg):
    kind, mcs, nrs = arg
    bad = []
    n = acc = 0
    for mc in mcs:
        for nr in nrs:
            n += 1
            v = decode_top(kind, mc, nr)
            if v is None:
                continue
            acc += 1
            if not abs(v - mc) <= 1e-6 * mc:
                bad.append((kind, mc, nr, v))
    return n, acc, bad


def constructor_grid(rep):
    from ..pool import run_tasks

    jobs = [("log8", MC, list(range(0, 255)))]
    if rep.tier == "quick":
        nrs = sorted(set(range(0, 65535, 97)) | set(range(65495, 65535)) | {1023})
        jobs.append(("log16", MC, nrs))
    else:
        allnr = list(range(0, 65535))
        step = 4096
        for i in range(0, len(allnr), step):
            jobs.append(("log16", MC, allnr[i : i + step]))
    res = run_tasks(__name__, "grid_task", jobs)
    tot = acc = 0
    for n, a, bad in res:
        tot += n
        acc += a
        for kind, mc, nr, v in bad[:5]:
            rep.violation(
                {"what": "ctor", "kind_": kind, "max_count": mc, "num_reserved": nr},
                f"{kind}(max_count={mc}, num_reserved={nr}) is accepted but its maximum counter "
                f"decodes to {v!r}",
            )
    # configurations whose Newton starting point max_count^(1/K) sits on or next to the
    # stationary point of the base equation (K = number of log counters, max_count ~ K^K):
    # the first step overshoots by orders of magnitude or the slope is exactly zero
    fam = 0
    for kind, umax in (("log8", 255), ("log16", 65535)):
        for K in range(1, 24):
            nr = umax - K
            for base_mc in (K**K, K**K + nr, (K + 1) ** K, 2**64 - 4):
                for d in range(-3, 4):
                    mc = base_mc + d
                    if not umax < mc < 2**64:
                        continue
                    v = decode_top(kind, mc, nr)
                    fam += 1
                    if v is not None:
                        acc += 1
                        if not abs(v - mc) <= 1e-6 * mc:
                            rep.violation(
                                {"what": "ctor", "kind_": kind, "max_count": mc, "num_reserved": nr},
                                f"{kind}(max_count={mc}, num_reserved={nr}) is accepted but its "
                                f"maximum counter decodes to {v!r}",
                            )
    tot += fam
    rep.part("constructor_stationary_family", configurations=fam)
    # both counter widths constructed with the SAME explicit (max_count, num_reserved) in one
    # process, in both orders: each must get its own base
    inter = 0
    for mc, nr in ((300000, 3), (200000, 7), (2**32 - 1, 50), (10**6, 100), (2**40, 0), (65536 * 4, 200)):
        for order in (("log16", "log8"), ("log8", "log16")):
            for kind in order:
                v = decode_top(kind, mc, nr)
                inter += 1
                if v is not None and not abs(v - mc) <= 1e-6 * mc:
                    rep.violation(
                        {"what": "ctor-order", "order": list(order), "kind_": kind, "max_count": mc,
                         "num_reserved": nr},
                        f"{kind}(max_count={mc}, num_reserved={nr}) constructed in the order {order} "
                        f"in one process: its maximum counter decodes to {v!r}",
                    )
    tot += inter
    rep.evals(tot)
    rep.add("transitions", tot)
    rep.add("traces_validated_against_impl", tot)
    rep.add("states", tot)
    rep.nontrivial_n(acc)
    rep.part("constructor_grid", configurations=tot, accepted=acc, rejected=tot - acc)
    rep.sample({"ctor": "log8", "max_count": 300, "num_reserved": 253})
    print(f"  constructor grid: {tot} configurations, {acc} accepted", flush=True)


BULK = [("log8", [2, 2, 1000, 15]), ("log16", [2, 2, 100000, 1023]), ("log8", [1, 1, 300, 250]),
        ("log16", [1, 1, 70000, 15])]


def bulk_case(kind, args, v, seed):
    """ONE add of multiplicity v >> max_count on a fresh log sketch (first batch of draws all
    advancing, then the seeded generator): the key must end exactly AT the ceiling - not
    beyond it, not wrapped around to a small counter."""
    from . import c06

    seed_fn, _ = c06.jit_helpers()
    sk = SK.make(kind, *args)
    seed_fn(seed + 11)
    sk.rand_nums[:] = 0.0
    sk.rand_ptr = 0
    sk.add(b"bulk", v)
    est = float(sk.query(b"bulk"))
    top = SK.make(kind, *args)
    top.cms[:, :] = top.uint_maxval
    want = float(top.query(b"bulk"))
    return est != want, {"estimate": est, "ceiling": want,
                         "counters": [int(x) for x in sk.cms.ravel()[:4]]}


def bulk_to_ceiling(rep):
    n = 0
    for kind, args in BULK:
        for v in (2**31, 2**32 - 1, 2**32, 2**32 + 3, 2**40):
            bad, obs = bulk_case(kind, args, v, rep.seed)
            n += 1
            rep.evals()
            rep.nontrivial(("bulk", kind, tuple(args), v))
            if bad:
                rep.violation({"what": "bulk", "kind_": kind, "args": args, "v": v, "seed": rep.seed},
                              f"{kind}{args}: one add(key, {v}) leaves the estimate at "
                              f"{obs['estimate']}, not at the ceiling {obs['ceiling']} "
                              f"(counters {obs['counters']})")
    rep.add("transitions", n)
    rep.add("traces_validated_against_impl", n)
    rep.part("bulk_to_ceiling", cases=n)


def run(rep):
    from ..pool import run_tasks

    jobs = [("cm", c, rep.seed, rep.tier) for c in cm_configs(rep.tier)]
    jobs += [("hh", c, rep.seed, rep.tier) for c in hh_configs(rep.tier)]
    res = run_tasks(__name__, "task", jobs)
    for name, cfg, st, viol in res:
        rep.violations.extend(viol)
        merge_stats(rep, name, cfg, st)
        print(f"  {name}: D={st['depth']} states={st['states']} trans={st['transitions']} "
              f"nontrivial={st['nontrivial']} {st['wall_s']}s", flush=True)
    constructor_grid(rep)
    bulk_to_ceiling(rep)
    rep.set("closed", False)
    rep.set(
        "rule",
        "BFS state graphs of real linear/log/heavy-hitter sketches with multiplicities landing "
        "within +-3 of the ceiling and beyond; edge predicate 'no estimate lowered, ceiling is "
        "absorbing' on every transition; plus the complete (max_count x num_reserved) constructor "
        "grid; non-trivial = colliding states + accepted configurations",
    )


def replay(case):
    if case.get("what") == "bulk":
        return bulk_case(case["kind_"], case["args"], case["v"], case.get("seed", 0))
    if case.get("what") == "ctor-order":
        bad = False
        seen = {}
        for kind in case["order"]:
            v = decode_top(kind, case["max_count"], case["num_reserved"])
            seen[kind] = v
            if v is not None and not abs(v - case["max_count"]) <= 1e-6 * case["max_count"]:
                bad = True
        return bad, {"decoded_ceilings": seen}
    if case.get("what") == "ctor":
        v = decode_top(case["kind_"], case["max_count"], case["num_reserved"])
        bad = v is not None and not abs(v - case["max_count"]) <= 1e-6 * case["max_count"]
        return bad, {"decoded_ceiling": v, "max_count": case["max_count"]}
    scratch = tmpdir()
    try:
        if case.get("what") == "hh":
            return H.HHSys(scratch, "c18").replay(case["cfg"], case["events"])
        return C.CMSys(scratch, ("mono",)).replay(case["cfg"], case["events"])
    finally:
        shutil.rmtree(scratch, ignore_errors=True)
