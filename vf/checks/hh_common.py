"""Shared system for the heavy-hitter properties C03, C04, C13 (and C18's hh part).

Reference model M4:
  identity(key) = first max_key_len bytes as a byte string (length sensitive)
  true[s][identity] = total multiplicity (Python int, uncapped)
  cell ownership by PROBING the real sketch (add to an empty sketch, see which
  cell moved) - the hash model is not trusted.

Theorems used as oracles (weighted Boyer-Moore cells, proofs in DESIGN 3.4):
  T1  every stored counter for key x is <= true(x)                      (C03)
  T2  absent saturation, with Phi_x(cell) = +cnt if the cell holds x else -cnt,
      Phi_x >= 2 f_x - W(cell) after every add and Phi is super-additive under
      merge; hence hh[x] >= max_r(2 f_x - W_r) when positive                (C04)
  T3  if 2 f_x > N then x is reported strictly first with count >= 2f - N  (C04)
"""
import os

import numpy as np

from .. import sk as SK
from ..bfs import E1, capture, restore
from ..common import U32, MachineryError
from ..models import cm as M2

INF = 10**6


def windows(x, n):
    if len(x) <= n:
        return [x]
    return [x[i : i + n] for i in range(len(x) - n + 1)]


class HHSys(E1):
    name = "hh"
    mode = "c03"  # which oracle set: c03 | c04 | c13 | c18

    def __init__(self, scratch_dir, mode):
        self.dir = scratch_dir
        self.mode = mode
        self._sl_cache = {}
        self._probes_cache = {}
        self.file = os.path.join(scratch_dir, "hh.npz")
        from .cm_common import freeze_zip_clock

        freeze_zip_clock()

    def _sync(self):
        """Re-read the scratch file after the library wrote (or should have written) it."""
        try:
            with open(self.file, "rb") as f:
                self._file_now = f.read()
        except FileNotFoundError:
            self._file_now = b""

    _file_now = b""

    def ext_capture(self):
        return self._file_now

    def ext_restore(self, x):
        if x == self._file_now:
            return
        if x:
            with open(self.file, "wb") as f:
                f.write(x)
        elif os.path.exists(self.file):
            os.remove(self.file)
        self._file_now = x

    # cfg: args=[w,d,L(,phi)], S, keys, mults, ngrams, thresholds (c13), saveload
    def factory(self):
        return SK.make("hh", *self.cfg["args"])

    def init(self, cfg):
        self.cfg = cfg
        self.width, self.depth, self.L = (int(x) for x in cfg["args"][:3])
        self._probe = M2.Probe(self.factory, table="lhh_count")
        self.alpha = [bytes(k) for k in cfg["keys"]]
        work = [self.factory() for _ in range(cfg["S"])]
        return work, tuple(() for _ in range(cfg["S"]))

    def ident(self, k):
        return bytes(k[: self.L])

    def cols(self, ident):
        return self._probe.cols(ident)

    def touched(self, ev):
        return (ev[1], ev[2]) if ev[0] == "merge" else (ev[1],)

    def events(self, model, depth):
        c = self.cfg
        S = c["S"]
        for s in range(S):
            for k in self.alpha:
                for v in c["mults"]:
                    yield ("add", s, k, v)
        if c.get("dict_updates"):
            # the same multiplicities through update({key: value}) and update(Counter)
            for s in range(S):
                for k in self.alpha[:2]:
                    for v in c["mults"]:
                        yield ("updd", s, k, v)
        for s in range(S):
            for x, n in c.get("ngrams", ()):
                yield ("ngram", s, bytes(x), n)
        for s in range(S):
            for t in range(S):
                if s != t:
                    yield ("merge", s, t)
        if c.get("saveload", True):
            for s in range(S):
                yield ("saveload", s)
            for s in range(S):
                yield ("savecheck", s)
        if self.mode == "c13":
            for s in range(S):
                for t in c["thresholds"]:
                    yield ("query", s, t)

    def apply(self, work, model, ev):
        m = [dict(x) for x in model]
        op = ev[0]
        probs = []
        if op == "add":
            _, s, k, v = ev
            work[s].add(k, v)
            i = self.ident(k)
            m[s][i] = m[s].get(i, 0) + v
        elif op == "updd":
            _, s, k, v = ev
            from collections import Counter as _C

            work[s].update({k: v} if v % 2 else _C({k: v}))
            i = self.ident(k)
            m[s][i] = m[s].get(i, 0) + v
        elif op == "ngram":
            _, s, x, n = ev
            work[s].add_ngram(x, n)
            for w in windows(x, n):
                i = self.ident(w)
                m[s][i] = m[s].get(i, 0) + 1
        elif op == "merge":
            _, s, t = ev
            work[s].merge(work[t])
            for k, v in m[t].items():
                m[s][k] = m[s].get(k, 0) + v
        elif op == "saveload":
            # real save() + real load(); the result is a deterministic function of the
            # sketch's own state, so it is memoised per distinct sketch state
            _, s = ev
            # memoised only while no state outside the objects exists (pristine globals)
            memo_ok = not (self.G.capture() if hasattr(self, "G") else ())
            before = (capture(work[s], self.skip), self.ext_capture())
            hit = self._sl_cache.get(before) if memo_ok else None
            if hit is None:
                work[s].save(self.file)
                self._sync()
                work[s] = type(work[s]).load(self.file)
                if memo_ok and not (self.G.capture() if hasattr(self, "G") else ()):
                    self._sl_cache[before] = (capture(work[s], self.skip), self.ext_capture())
            else:
                restore(work[s], hit[0], self.skip)
                self.ext_restore(hit[1])
        elif op == "savecheck":
            _, s = ev
            work[s].save(self.file)
            self._sync()
            try:
                L = type(work[s]).load(self.file)
            except Exception as e:
                probs.append(f"sketch {s}: load() of the file just written by save() raised "
                             f"{type(e).__name__}: {e}")
                L = None
            if L is not None:
                diff = SK.persist_diff(work[s], L)
                if diff:
                    probs.append(f"sketch {s}: after save() to the shared scratch path, load() of "
                                 f"that path returns a different sketch (differs in {diff})")
                del L
        elif op == "query":
            _, s, t = ev
            probs = self.query_event(work[s], dict(model[s]), s, t)
        else:
            raise MachineryError(f"unknown event {ev}")
        return tuple(tuple(sorted(x.items())) for x in m), probs

    # ------------------------------------------------------------------ probes
    def probes(self, model_s):
        """Keys to look up: alphabet identities, their NUL-aliases, everything in
        the model, and never-added keys (all of length <= L)."""
        hit = self._probes_cache.get(model_s)
        if hit is not None:
            return hit
        L = self.L
        out = set()
        for k in list(self.alpha) + [k for k, _ in model_s]:
            i = self.ident(k)
            out.add(i)
            if len(i) < L:
                out.add(i + b"\x00")
            out.add(i.rstrip(b"\x00"))
            if len(i) > 0:
                out.add(i[:-1])
        out.add(b"\x01"[:L])
        out.add(b"")
        out.add(b"\x00" * L)
        self._probes_cache[model_s] = out = sorted(out)
        return out

    def lookup(self, sk, q):
        try:
            return int(sk[q])
        except ValueError:
            return None  # key longer than max_key_len: no value is returned

    # ------------------------------------------------------------------ oracles
    def oracle(self, work, model):
        """Read-only part (hh[q] does not touch the cache)."""
        probs = []
        for s, sk in self.active(work):
            true = dict(model[s])
            if self.mode in ("c03", "c13", "c18"):
                for q in self.probes(model[s]):
                    c = self.lookup(sk, q)
                    if c is not None and c > true.get(q, 0):
                        probs.append(
                            f"sketch {s}: hh[{q!r}] = {c} exceeds the true count {true.get(q, 0)}"
                        )
                for q in self.alpha:
                    if len(q) > self.L:  # identity = first max_key_len bytes
                        c = self.lookup(sk, q)
                        if c is not None and c > true.get(self.ident(q), 0):
                            probs.append(
                                f"sketch {s}: hh[{q!r}] = {c} exceeds the true count "
                                f"{true.get(self.ident(q), 0)} of its identity {self.ident(q)!r}"
                            )
            if self.mode == "c04":
                probs += self.c04_lookup(sk, true, s)
            if self.mode == "c18":
                # a key that fills its cells alone is counted exactly, capped at 2^32-1
                for x, f in true.items():
                    if not f:
                        continue
                    cx = self.cols(x)
                    alone = all(
                        all(self.cols(y)[r] != cx[r] for y, fy in true.items() if y != x and fy)
                        for r in range(self.depth)
                    )
                    if alone:
                        c = self.lookup(sk, x)
                        if c is not None and c != min(f, U32):
                            probs.append(
                                f"sketch {s}: {x!r} fills its cells alone but hh[key] = {c}, "
                                f"expected min(true, 2^32-1) = {min(f, U32)}"
                            )
        return probs

    def bounds(self, true):
        """ident -> max_r(2f - W_r) from the probed cell ownership."""
        cell = {}
        for k, v in true.items():
            if v:
                ck = self.cols(k)
                for r in range(self.depth):
                    cell[(r, ck[r])] = cell.get((r, ck[r]), 0) + v
        out = {}
        for k, f in true.items():
            if f:
                ck = self.cols(k)
                out[k] = max(2 * f - cell[(r, ck[r])] for r in range(self.depth))
        return out

    def c04_lookup(self, sk, true, s):
        probs = []
        N = sum(true.values())
        if N > U32:
            return probs  # property excludes 32-bit saturation
        for x, b in self.bounds(true).items():
            if b > 0:
                c = self.lookup(sk, x)
                if c is not None and c < b:
                    probs.append(
                        f"sketch {s}: hh[{x!r}] = {c} is below max_r(2f - W_r) = {b} "
                        f"(f = {true[x]}, N = {N})"
                    )
        return probs

    def post_oracle(self, work, model):
        """query()-based oracles: they rebuild the cache, so they run after the
        state was captured (the engine restores the objects afterwards)."""
        if self.mode == "c13":
            return []
        probs = []
        for s, sk in self.active(work):
            true = dict(model[s])
            N = sum(true.values())
            if self.mode in ("c03", "c18"):
                for t in (None, 0, 1):
                    for k, c in sk.query(INF, t):
                        c = int(c)
                        if c > true.get(k, 0):
                            probs.append(
                                f"sketch {s}: query(inf, {t}) reports ({k!r}, {c}) but the true "
                                f"count is {true.get(k, 0)}"
                            )
            elif self.mode == "c04" and N <= U32:
                bnd = self.bounds(true)
                n_added = int(sk.n_added())
                for t in (0, 1, None, "bound"):
                    for x, b in bnd.items():
                        if b <= 0:
                            continue
                        if t == "bound":
                            tt = b
                        elif t is None:
                            tt = None
                        else:
                            tt = t
                        t_eff = int(np.uint32(float(sk.phi) * n_added)) if tt is None else tt
                        if b < t_eff:
                            continue
                        ans = dict(sk.query(INF, tt))
                        if x not in ans or int(ans[x]) < b:
                            probs.append(
                                f"sketch {s}: query(inf, {tt}) lacks {x!r} with count >= {b} "
                                f"(f = {true[x]}, N = {N}); got {ans.get(x)}"
                            )
                for x, f in true.items():
                    if 2 * f > N:
                        for t in (1, 0):
                            top = sk.query(1, t)
                            if not top or top[0][0] != x or int(top[0][1]) < 2 * f - N:
                                probs.append(
                                    f"sketch {s}: majority key {x!r} (f={f} of N={N}) is not "
                                    f"reported first with count >= {2*f-N}: query(1,{t}) = {top}"
                                )
        if self.mode == "c04":
            # every pass ends with query(k, 0) on EVERY sketch of the system, small k first:
            # an untouched sketch is thus asked the same question again after another sketch
            # was modified and queried (its answer must not depend on that)
            for s, sk in enumerate(work):
                true = dict(model[s])
                if sum(true.values()) > U32:
                    continue
                sk.query(1, 0)
                ans = dict(sk.query(INF, 0))
                for x, b in self.bounds(true).items():
                    if b > 0 and (x not in ans or int(ans[x]) < b):
                        probs.append(
                            f"sketch {s}: query(inf, 0) lacks {x!r} with count >= {b} "
                            f"(f = {true[x]}); got {ans.get(x)} - answer {sorted(ans.items())[:4]}"
                        )
        return probs

    # ------------------------------------------------------------------ C13
    def query_event(self, sk, true, s, t):
        probs = []
        n_added = int(sk.n_added())
        t_eff = int(np.uint32(float(sk.phi) * n_added)) if t is None else int(t)
        first1 = sk.query(1, t)  # a small k FIRST: a later larger k must not be cut down to it
        ans = sk.query(INF, t)
        keys = [k for k, _ in ans]
        cnts = [int(c) for _, c in ans]
        if [int(c) for _, c in first1] != cnts[:1]:
            probs.append(f"sketch {s}: query(1,{t}) = {first1} is not the head of query(inf,{t}) = {ans}")
        if len(set(keys)) != len(keys):
            probs.append(f"sketch {s}: query(inf,{t}) repeats a key: {ans}")
        if any(cnts[i] < cnts[i + 1] for i in range(len(cnts) - 1)):
            probs.append(f"sketch {s}: query(inf,{t}) is not in non-increasing order: {ans}")
        for k, c in zip(keys, cnts):
            h = self.lookup(sk, k)
            if h is not None and h != c:
                probs.append(f"sketch {s}: query(inf,{t}) reports ({k!r},{c}) but hh[key] = {h}")
            if c < t_eff:
                probs.append(f"sketch {s}: query(inf,{t}) reports count {c} below threshold {t_eff}")
        z = sk.query(0, t)
        if len(z) != 0:
            probs.append(f"sketch {s}: query(0,{t}) returned {len(z)} pairs: {z[:3]} (at most k = 0)")
        for kk in (1, 2, 3):
            a = sk.query(kk, t)
            if len(a) > kk or [int(c) for _, c in a] != cnts[:kk]:
                probs.append(
                    f"sketch {s}: query({kk},{t}) = {a} is not the first {kk} of the unbounded "
                    f"answer {ans}"
                )
        for x, f in true.items():
            if f > 0:
                h = self.lookup(sk, x)
                if h is not None and h >= max(t_eff, 1) and x not in keys:
                    probs.append(
                        f"sketch {s}: added key {x!r} with hh[key] = {h} >= max(threshold {t_eff},1) "
                        f"is missing from query(inf,{t}) = {ans}"
                    )
        # freshness: the answer equals that of a freshly loaded copy
        path = os.path.join(self.dir, "fresh.npz")
        sk.save(path)
        fresh = type(sk).load(path)
        fa = fresh.query(INF, t)
        if sorted((k, int(c)) for k, c in fa) != sorted(zip(keys, cnts)):
            probs.append(
                f"sketch {s}: query(inf,{t}) = {ans} but a freshly loaded copy answers {fa} "
                f"(stale candidate cache)"
            )
        return probs

    def nontrivial(self, work, model):
        # a sketch in which two different identities with positive counts share a cell
        for x in model:
            ks = [k for k, v in x if v]
            for i in range(len(ks)):
                for j in range(i + 1, len(ks)):
                    a, b = self.cols(ks[i]), self.cols(ks[j])
                    if any(a[r] == b[r] for r in range(self.depth)):
                        return True
        return False

    def outcome(self, work, model):
        return tuple((w.lhh_count.tobytes(), w.lhh.tobytes(), w.key_lens.tobytes()) for w in work)


def hh_alphabet(args, seed):
    """Alphabet adapted to max_key_len L: stem, stem+NUL (alias pair), empty key,
    all-NUL key, a key longer than L and a second long key with the same prefix.
    For width > 1 the stem byte is chosen by probing so that the alias pair
    shares a cell in some row."""
    w, d, L = (int(x) for x in args[:3])
    probe = M2.Probe(lambda: SK.make("hh", *args), table="lhh_count")
    salt = seed % 200
    stem = None
    cands = [bytes([97 + (salt + i) % 26]) for i in range(26)] + [bytes([i]) for i in range(1, 256)]
    if L >= 2:
        for c in cands:
            a, b = probe.cols(c), probe.cols(c + b"\x00")
            if any(a[r] == b[r] for r in range(d)):
                stem = c
                break
    if stem is None:
        stem = cands[0]
    keys = [stem]
    if L >= 2:
        keys.append(stem + b"\x00")
    keys.append(b"")
    keys.append(b"\x00" * L)
    long1 = (stem + b"\x00" * L)[:L] + b"x"
    long2 = (stem + b"\x00" * L)[:L] + b"yz"
    if L >= 2:
        keys.append(long1)  # identity == stem + NULs: aliases the NUL-suffixed family
    else:
        keys.append(long1)
        keys.append(long2)
    other = bytes([98 + (salt % 20)])[:L]
    if other not in keys:
        keys.append(other)
    if L >= 2:
        # a 2-byte key that starts like the stem but has a NON-NUL tail (padding bytes of a
        # cell can then hold something other than NUL after a shorter key took it over)
        keys.append(stem + b"z")
    # n <= L, n == 1, and n > max_key_len (windows are then truncated to their identity)
    ng = [[stem + b"\x00" + stem, 2], [b"\x00\x00\x00", 1],
          [(stem + b"\x00" + stem + other + stem)[: L + 3], L + 1],
          [(stem + other + stem)[:2], 2]]  # record length == n: one window, the record itself
    return keys, ng
