"""C10 - save/load reproduces the sketch exactly, for every sketch type.

E1-style: for every class x configuration of a grid x shared_memory in
{False, True}, EVERY state of a small history graph (all add sequences to depth
D, also started from a state with a non-zero record counter) is saved with the
real save() and loaded with the real loader(s).  Differential oracle, no
hand-written expectations:
  * same class, equal public parameters, equal tables and bookkeeping
  * equal answers to every query of the universe
  * copy(s).merge(L) succeeds and equals copy(s).merge(copy(s))
  * one-step bisimulation: for every event e (log: identical installed draws)
    e(L) and e(s) have equal persistent state and answers
  * chain save -> load -> event -> save -> load
  * dispatch matrix: module-level load() returns the writing class; each
    count-min class loader rejects the other counter types' files
"""
import copy
import os
import shutil

from .. import sk as SK
from ..bfs import capture, restore
from ..common import tmpdir, quiet_shm, MachineryError

PROP = "C10"
LEVEL = "model_checking"
SKIP = ("rand_nums", "rand_ptr", "buckets")
INF = 10**6


def grid(tier, seed):
    s = seed % 5
    g = [
        ("linear", [1, 1]),
        ("linear", [3 + s, 2]),
        ("log16", [1, 1]),
        ("log16", [3, 2, 10**6, 2]),
        ("log16", [2, 3, 2**40, 1023]),
        ("log8", [1, 1]),
        ("log8", [3, 2, 1000, 2]),
        ("log8", [5, 1, 10**6, 200]),
        ("log16", [2, 1, 2**63 + 1025, 7]),
        ("hh", [1, 1, 4]),
        ("hh", [2, 2, 3, 0.25]),
        ("hh", [3 + s, 1, 16]),
        ("hh", [1, 2, 1, 0.5]),
        ("hh", [3, 1, 4, 0.333333]),  # explicit phi very close to, but not, the default 1/width
        ("hll", [7, 0]),
        ("hll", [7, 2**63 + 5 + s]),
        ("hll", [8, 2**64 - 1]),
    ]
    if tier == "thorough":
        g += [
            ("linear", [2, 5]),
            ("linear", [7, 8]),
            ("log16", [4, 8]),
            ("log16", [2, 2, 2**63, 65000]),
            ("log8", [2, 2, 2**32 - 1, 0]),
            ("log8", [2, 2, 2**53, 100]),
            ("hh", [4, 4, 255, 0.001]),
            ("hh", [2, 3, 2]),
            ("hll", [16, 12345]),
            ("hll", [12, 2**32]),
        ]
    return g


def alphabet(kind, args):
    if kind == "hh":
        L = args[2]
        return [b"a"[:L], (b"a\x00")[:L] if L > 1 else b"b", b"\x00" * L, b"longer-than-L" + b"x" * L]
    if kind == "hll":
        # boundary register values: a key of the MAXIMUM rank 64-p+1 in the last register and one
        # of rank 64-p in register 0 (crafted by inverting the hash)
        from ..models import hll as M3

        p, seed = args[0], args[1]
        return [b"", M3.craft(p, seed, (1 << p) - 1, 64 - p + 1), M3.craft(p, seed, 0, 64 - p),
                b"\xff\x80\x7f" * 3]
    return [b"", b"\x00", b"k1", b"\xff\x80\x7f" * 3]


def events_for(kind, args):
    A = alphabet(kind, args)
    evs = []
    for k in A[:3]:
        evs.append(("add", k, 1))
        evs.append(("add", k, 3))
    evs.append(("add", A[3], 2))
    evs.append(("ngram", A[3] + A[0], 2))
    if kind == "linear":
        # a counter driven to its largest storable value
        evs.append(("add", A[2], 2**32 - 1))
    elif kind in ("log16", "log8"):
        # well into the probabilistic range (the draws are the installed ones)
        evs.append(("add", A[2], 1500))  # < one batch of draws (2048)
    return evs


def do(sk, ev):
    if hasattr(sk, "rand_nums"):
        SK.install_draws(sk, [0.0, 1.0 - 2.0**-53, 0.3, 0.0, 0.9, 0.0, 0.5])
    if ev[0] == "add":
        sk.add(ev[1], ev[2])
    elif ev[0] == "ngram":
        sk.add_ngram(ev[1], ev[2])
    elif ev[0] == "records":
        sk.n_added_records[1] += ev[1]


def answers(sk, kind, uni):
    if kind == "hll":
        return (float(sk.query()),)
    if kind == "hh":
        out = []
        for k in uni:
            try:
                out.append(int(sk[k]))
            except ValueError:
                out.append(None)
        # first an explicit threshold (the object's cache state must not matter), then the
        # default, then 0
        q2 = tuple(sorted((k, int(c)) for k, c in sk.query(3, 2)))
        q = tuple(sorted((k, int(c)) for k, c in sk.query(INF)))
        q0 = tuple(sorted((k, int(c)) for k, c in sk.query(INF, 0)))
        return (tuple(out), q2, q, q0, int(sk.n_added()), int(sk.n_records()))
    return (tuple(float(sk.query(k)) for k in uni), int(sk.n_added()), int(sk.n_records()))


def observe(sk, kind, uni):
    """persist() + answers, on a throw-away restore so that queries do not disturb sk."""
    return (tuple(sorted(SK.persist(sk).items())), answers(sk, kind, uni))


def loaders(kind):
    import sketchnu.countmin as cm

    cls = SK.classes()[kind]
    out = [("class", cls.load)]
    if kind in ("linear", "log16", "log8"):
        out.append(("module", cm.load))
    return out


def check_state(kind, args, evs, cap, X, d, sub, stats):
    """All C10 oracles for the state `cap` (reached by the add history evs)."""
    uni = alphabet(kind, args) + [b"never"]
    path = os.path.join(d, "s.npz")
    restore(X, cap, SKIP)
    X.save(path)
    ref = observe(X, kind, uni)
    all_events = events_for(kind, args)

    def fail(msg, extra):
        case = {"kind_": kind, "args": args, "history": [list(e) for e in evs]}
        case.update(extra)
        sub.violation(case, f"{kind}{args} after {len(evs)} events: {msg}")

    # file names as pathlib.Path (documented: str | Path) must behave like str
    from pathlib import Path as _Path

    if stats["states"] % 5 == 0:
        pp = _Path(d) / "p.npz"
        try:
            X.save(pp)
            Lp = loaders(kind)[0][1](pp)
            stats["loads"] += 1
            if observe(Lp, kind, uni) != ref:
                fail("save(Path)/load(Path) differs from the saved sketch", {"what": "path"})
            del Lp
        except Exception as e:
            fail(f"save/load with a pathlib.Path raised {type(e).__name__}: {e}", {"what": "path"})
        restore(X, cap, SKIP)
        # names without the suffix and with a dot in them: save() appends ".npz" (numpy), so
        # "ck.1" and "ck.2" are two files and "ck.1.npz" holds the first sketch
        try:
            n1, n2 = os.path.join(d, "ck.1"), os.path.join(d, "ck.2")
            for f_ in (n1 + ".npz", n2 + ".npz"):
                if os.path.exists(f_):
                    os.remove(f_)
            X.save(n1)
            other = SK.make(kind, *args)
            other.add(b"another-sketch", 3)
            other.save(n2)
            Ld = loaders(kind)[0][1](n1 + ".npz")
            stats["loads"] += 1
            if observe(Ld, kind, uni) != ref:
                fail("save('ck.1'); save(other, 'ck.2'); load('ck.1.npz') is not the first sketch",
                     {"what": "dotted"})
            del Ld, other
        except Exception as e:
            fail(f"save('ck.1') / load('ck.1.npz') raised {type(e).__name__}: {e}", {"what": "dotted"})
        restore(X, cap, SKIP)
    for lname, loader in loaders(kind):
        for shared in (False, True):
            stats["loads"] += 1
            try:
                L = loader(path, shared)
            except Exception as e:
                fail(f"{lname} load(shared_memory={shared}) raised {type(e).__name__}: {e}",
                     {"loader": lname, "shared": shared, "what": "load"})
                continue
            if type(L) is not type(X):
                fail(f"{lname} load returned {type(L).__name__}, saved {type(X).__name__}",
                     {"loader": lname, "shared": shared, "what": "class"})
            got = observe(L, kind, uni)
            if got != ref:
                diff = SK.persist_diff(X, L)
                fail(f"{lname} load(shared_memory={shared}) differs from the saved sketch in "
                     f"{diff or 'query answers'}",
                     {"loader": lname, "shared": shared, "what": "equal"})
            if shared:
                # "loaded with shared_memory" means the whole state lives in the block: a
                # second handle attached to it (what parallel_add's workers do) sees it too
                V = SK.make(kind, *args)
                V.attach_existing_shm(L.shm.name)
                gv = observe(V, kind, uni)
                del V
                stats["loads"] += 1
                if gv != ref:
                    fail(f"{lname} load(shared_memory=True): a handle attached to the loaded "
                         f"sketch's block does not see the saved state "
                         f"({'tables/bookkeeping' if gv[0] != ref[0] else 'answers'} differ)",
                         {"loader": lname, "shared": shared, "what": "attach"})
            # merge with the original
            restore(X, cap, SKIP)
            a = copy.deepcopy(X)
            b = copy.deepcopy(X)
            try:
                a.merge(L)
                b.merge(copy.deepcopy(X))
                if observe(a, kind, uni) != observe(b, kind, uni):
                    fail("merging the loaded sketch into the original differs from merging a copy",
                         {"loader": lname, "shared": shared, "what": "merge"})
            except Exception as e:
                fail(f"merging the loaded sketch raised {type(e).__name__}: {e}",
                     {"loader": lname, "shared": shared, "what": "merge"})
            # one-step bisimulation (only through the class loader, in-memory and shared)
            if lname == "class":
                capL = capture(L, SKIP)
                for ev in all_events:
                    restore(X, cap, SKIP)
                    restore(L, capL, SKIP)
                    do(X, ev)
                    do(L, ev)
                    stats["bisim"] += 1
                    if observe(X, kind, uni) != observe(L, kind, uni):
                        fail(f"after {ev} the loaded sketch evolves differently "
                             f"({SK.persist_diff(X, L) or 'answers'})",
                             {"loader": lname, "shared": shared, "what": "bisim", "event": list(ev)})
                # chain: loaded -> event -> save -> load
                if not shared:
                    ev = all_events[stats["states"] % len(all_events)]
                    restore(X, cap, SKIP)
                    restore(L, capL, SKIP)
                    do(X, ev)
                    do(L, ev)
                    p2 = os.path.join(d, "s2.npz")
                    stats["loads"] += 1
                    try:
                        L.save(p2)
                        L2 = loader(p2)
                    except Exception as e:
                        fail(f"chain save->load->{ev}->save->load raised {type(e).__name__}: {e}",
                             {"loader": lname, "shared": False, "what": "chain", "event": list(ev)})
                        L2 = None
                    if L2 is not None:
                        if observe(L2, kind, uni) != observe(X, kind, uni):
                            fail(f"chain save->load->{ev}->save->load differs from the original path",
                                 {"loader": lname, "shared": False, "what": "chain", "event": list(ev)})
                        del L2
            del L
    stats["states"] += 1


def explore(kind, args, depth, sub, d):
    X = SK.make(kind, *args)
    if hasattr(X, "rand_nums"):
        SK.install_draws(X, [])
    c0 = capture(X, SKIP)
    seen = {c0: []}
    frontier = [c0]
    evs = events_for(kind, args)
    if kind != "hll":
        # non-initial start state: a record counter as parallel_add leaves it
        restore(X, c0, SKIP)
        do(X, ("records", 5))
        do(X, evs[1])
        c1 = capture(X, SKIP)
        seen[c1] = [("records", 5), evs[1]]
        frontier.append(c1)
        # and one with records but NO key counted (a parallel_add worker whose records were empty)
        restore(X, c0, SKIP)
        do(X, ("records", 17))
        c2 = capture(X, SKIP)
        seen[c2] = [("records", 17)]
        frontier.append(c2)
    stats = dict(states=0, loads=0, bisim=0)
    for c in list(frontier):
        check_state(kind, args, seen[c], c, X, d, sub, stats)
    for _ in range(depth):
        nxt = []
        for c in frontier:
            for ev in evs:
                restore(X, c, SKIP)
                do(X, ev)
                c2 = capture(X, SKIP)
                if c2 not in seen:
                    seen[c2] = seen[c] + [ev]
                    nxt.append(c2)
                    check_state(kind, args, seen[c2], c2, X, d, sub, stats)
        frontier = nxt
    return stats


def dispatch_matrix(rep, d):
    """Module-level load() returns the writing class; each count-min class loader
    rejects the other counter types' files."""
    import sketchnu.countmin as cm

    kinds = {"linear": [3, 2], "log16": [3, 2], "log8": [3, 2]}
    files = {}
    for k, a in kinds.items():
        sk = SK.make(k, *a)
        sk.add(b"x", 5)
        files[k] = os.path.join(d, f"m-{k}.npz")
        sk.save(files[k])
    cls = SK.classes()
    for writer, path in files.items():
        for shared in (False, True):
            got = cm.load(path, shared)
            rep.evals()
            if type(got) is not cls[writer]:
                rep.violation({"what": "dispatch", "writer": writer, "shared": shared},
                              f"module load() of a {writer} file returned {type(got).__name__}")
            del got
        for reader in kinds:
            rep.evals()
            try:
                got = cls[reader].load(path)
                ok = reader == writer
                del got
            except Exception:
                ok = reader != writer
            if not ok:
                rep.violation({"what": "reject", "writer": writer, "reader": reader},
                              f"{cls[reader].__name__}.load on a {writer} file: "
                              f"{'accepted' if reader != writer else 'rejected'}")
            rep.nontrivial(("dispatch", writer, reader))


def pool_size(tier):
    return 16


def task(arg):
    kind, args, seed, tier = arg
    from ..pool import SubReporter
    from ..common import StopExploration

    quiet_shm()
    sub = SubReporter(seed, tier)
    d = tmpdir()
    st = dict(states=0, loads=0, bisim=0)
    try:
        depth = 2 if tier == "quick" else 5
        try:
            st = explore(kind, args, depth, sub, d)
        except StopExploration:
            pass
    finally:
        shutil.rmtree(d, ignore_errors=True)
    return kind, args, st, sub.violations


def run(rep):
    from ..pool import run_tasks

    quiet_shm()
    res = run_tasks(__name__, "task", [(k, a, rep.seed, rep.tier) for k, a in grid(rep.tier, rep.seed)])
    for kind, args, st, viol in res:
        rep.violations.extend(viol)
        rep.add("states", st["states"])
        rep.add("transitions", st["loads"] + st["bisim"])
        rep.add("traces_validated_against_impl", st["loads"] + st["bisim"])
        rep.evals(st["loads"] + st["bisim"])
        rep.nontrivial_n(st["states"])
        rep.part(f"{kind}-{args}", **st)
        print(f"  {kind}{args}: states={st['states']} loads={st['loads']} bisim steps={st['bisim']}",
              flush=True)
    d = tmpdir()
    try:
        dispatch_matrix(rep, d)
    finally:
        shutil.rmtree(d, ignore_errors=True)
    rep.sample({"kind": "hh", "args": [1, 1, 4], "history": [["add", b"a", 1]],
                "oracles": ["equal", "merge", "bisim x events", "chain"]})
    rep.set(
        "rule",
        "states = distinct sketch states of the history graph (depth D adds, incl. a start state "
        "with n_records != 0) per class x configuration; each is saved and loaded through every "
        "loader with shared_memory False/True; transitions = real load() calls + bisimulation "
        "steps; non-trivial = distinct states saved",
    )
    if not rep.violations and rep.cov.get("states", 0) < 100:
        raise MachineryError("C10 explored too few states")


def replay(case):
    quiet_shm()
    d = tmpdir()
    try:
        if case.get("what") in ("dispatch", "reject"):
            from ..pool import SubReporter

            sub = SubReporter(max_violations=10**9)
            sub.evals = lambda n=1: None
            sub.nontrivial = lambda t: None
            dispatch_matrix(sub, d)
            hits = [m for c, m in sub.violations
                    if c.get("writer") == case.get("writer") and c.get("reader") == case.get("reader")]
            return bool(hits), {"problems": hits[:3]}
        from ..pool import SubReporter

        kind, args = case["kind_"], case["args"]
        X = SK.make(kind, *args)
        if hasattr(X, "rand_nums"):
            SK.install_draws(X, [])
        for ev in case["history"]:
            do(X, tuple(ev))
        cap = capture(X, SKIP)
        sub = SubReporter(max_violations=10**9)
        stats = dict(states=0, loads=0, bisim=0)
        check_state(kind, args, [tuple(e) for e in case["history"]], cap, X, d, sub, stats)
        hits = [m for c, m in sub.violations if c.get("what") == case.get("what")]
        return bool(hits), {"problems": hits[:3]}
    finally:
        shutil.rmtree(d, ignore_errors=True)
