"""C04 - heavy hitters always report a key that dominates one of its cells.

Same exploration as C03 (real HeavyHitters under E1), oracle T2/T3: for every
key x with f > 0 and bound b = max_r(2f - W_r) > 0 (W_r from probed cell
ownership): hh[x] >= b; query(inf, t) contains x with count >= b whenever
b >= t (t in {0, 1, None, b}); if 2f > N, query(1, t)[0] is x with count >= 2f-N.
Every pass ends with query(1, 0); query(inf, 0) on EVERY sketch of the system, so
an untouched sketch is asked the same question again after another sketch was
modified and queried, and a larger k follows a smaller one.
Multiplicities are kept below 2^32 in total (the property excludes saturation).
Sub-systems: all orderings (width 1, one sketch, depth 7) and all partitions /
merge orders (width 1, 4 sketches).
"""
import shutil

from ..common import tmpdir
from . import hh_common as H
from . import c03

PROP = "C04"
LEVEL = "model_checking"
MODE = "c04"


def configs(tier, seed):
    out = []
    if tier == "quick":
        for args in ([1, 1, 2], [2, 1, 2], [1, 2, 3], [2, 2, 4]):
            out.append(dict(args=args, S=2, mults=[1, 2], depth=3))
            out.append(dict(args=args, S=2, mults=[2], depth=4, ngrams=[]))
        # mixed key lengths in ONE cell, deeper: a shorter key takes over a longer one's cell and
        # the result is merged with a sketch holding the short key (stem, stem+'z', other)
        out.append(dict(args=[1, 1, 2], S=2, mults=[1, 2], depth=4, keep=[0, 6, 5], ngrams=[],
                        saveload=False))
        out.append(dict(args=[1, 2, 3], S=2, mults=[2], depth=5, keep=[0, 6], ngrams=[],
                        saveload=False))
        # all orderings of unit adds in one width-1 cell
        out.append(dict(args=[1, 1, 2], S=1, mults=[1], depth=6, saveload=False, ngrams=[]))
    else:
        for args in ([1, 1, 2], [2, 1, 2], [1, 2, 3], [2, 2, 4], [3, 2, 1], [2, 3, 16], [1, 4, 2]):
            out.append(dict(args=args, S=2, mults=[1, 2], depth=4))
            out.append(dict(args=args, S=2, mults=[2], depth=5, ngrams=[]))
        for args in ([1, 1, 2], [2, 2, 3]):
            out.append(dict(args=args, S=2, mults=[1, 3, 2**30], depth=3))
        out.append(dict(args=[1, 1, 2], S=1, mults=[1], depth=8, saveload=False, ngrams=[]))
        out.append(dict(args=[1, 1, 2], S=1, mults=[1, 2, 5], depth=5, saveload=False, ngrams=[]))
        out.append(dict(args=[1, 1, 2], S=4, mults=[1], depth=5, saveload=False, ngrams=[]))
        out.append(dict(args=[2, 2, 2], S=3, mults=[1, 2], depth=3, saveload=False))
    return out


def pool_size(tier):
    return 11 if tier == "quick" else 16


def task(arg):
    return c03.task(arg)


def run(rep):
    c03.run_mode(rep, MODE, configs(rep.tier, rep.seed), __name__)
    rep.set(
        "rule",
        "same state graph as C03; oracle T2/T3 (potential bound) on hh[x] and on query(inf,t), "
        "t in {0,1,None,bound}, and 'majority key first'; non-trivial state = two identities with "
        "positive counts share a cell",
    )


def replay(case):
    scratch = tmpdir()
    try:
        return H.HHSys(scratch, MODE).replay(case["cfg"], case["events"])
    finally:
        shutil.rmtree(scratch, ignore_errors=True)
