"""C17 - query() is the documented HyperLogLog++ estimator of the registers.

The estimator depends on the registers only through their histogram (checked
on shuffled arrays), so the state space is enumerated as HISTOGRAMS written
directly into the registers of a real sketch, for every precision 7..16:
  (a) V zero registers, the rest at rank r (r = 1..4): every V in 0..m for small
      p (all p in the thorough tier) and a +-64 window around the V where
      linear counting crosses threshold[p]
  (b) no zero register, k registers at r+1 and m-k at r (r = 1..6): every k for
      small p and a +-64 window around the k where the raw estimate crosses 5m
  (c) empty, all ones, single zero, all at the maximum rank
  (d) register arrays reached from real key sets at loads 0.01..100 keys/register
  (e) three-rank mixtures
  (f) pairs of states with equal register sums, queried back to back on one object
  (g) one state per estimator branch written / queried through the two handles of a
      shared-memory block (owner and attached view), in all four write/read combinations
Oracle: reference estimator M6 (vf/models/hll.py) computed with math.fsum from
the tables shipped in hll_constants.py, relative 1e-9; within 1e-9 of a switch
point either branch is accepted.  Table sanity: raw_estimate rows strictly
increasing, raw[0]-bias[0] == threshold[p], raw[-1]-bias[-1] == 5m.
"""
import math

import numpy as np

from .. import sk as SK
from ..common import MachineryError
from ..models import hll as M6

PROP = "C17"
LEVEL = "model_checking"
REL = 1e-9


def tables(p):
    from sketchnu import hll_constants as hc

    return (float(hc.sub_algorithm_threshold[p - 7]),
            [float(x) for x in hc.raw_estimate[p - 7]],
            [float(x) for x in hc.bias_data[p - 7]])


def ref_values(hist, p, tab):
    """Set of acceptable values (two when the histogram sits on a switch point)."""
    m = 1 << p
    val, branch, info = M6.estimate(hist, p, tab)
    out = [val]
    thr, raw, bias = tab
    E = info["raw"]
    corrected = E - M6.interp(E, raw, bias)
    if "lc" in info and abs(info["lc"] - thr) <= REL * thr:
        out = [info["lc"], corrected]
    if "lc" not in info and abs(E - 5 * m) <= REL * 5 * m:
        out = [E, corrected]
    return out, branch


def make_handles(p):
    from ..common import quiet_shm

    quiet_shm()
    owner = SK.make("hll", p, 0, shared_memory=True)
    view = SK.make("hll", p, 0)
    view.attach_existing_shm(owner.shm.name)
    return owner, view


def handle_hists(p, thr):
    """One register state per estimator branch (+ the empty sketch)."""
    m = 1 << p
    vc = crossing_V(p, thr)
    return [{0: m}, {0: min(m - 1, vc + 40), 1: m - min(m - 1, vc + 40)},
            {0: max(1, vc - 40), 2: m - max(1, vc - 40)}, {1: m // 2, 2: m - m // 2}, {6: m}]


def check_hist(sub, sk, p, tab, hist, fam, stats, shuffle=False, handle=None, reader=None):
    m = 1 << p
    reg = sk.registers
    pos = 0
    for r, c in sorted(hist.items()):
        reg[pos : pos + c] = r
        pos += c
    if pos != m:
        raise MachineryError("histogram does not sum to m")
    if shuffle:
        rng = np.random.default_rng(p * 1000 + len(hist))
        rng.shuffle(reg)
    exp, branch = ref_values(hist, p, tab)
    stats["n"] += 1
    stats["branches"].add((p, branch))
    prev = list(stats.get("prev", []))
    stats["prev"] = (prev + [[sorted(hist.items()), shuffle]])[-2:]
    extra = {"handle": handle} if handle else {}
    try:
        got = float((reader if reader is not None else sk).query())
    except Exception as e:
        sub.violation(dict({"p": p, "hist": sorted(hist.items()), "shuffle": shuffle, "prev": prev}, **extra),
                      f"p={p} histogram {sorted(hist.items())[:4]} ({fam}): query() raised "
                      f"{type(e).__name__}: {e}")
        return
    ok = any(abs(got - e) <= REL * max(1.0, abs(e)) for e in exp)
    if not ok:
        sub.violation(
            dict({"p": p, "hist": sorted(hist.items()), "shuffle": shuffle, "prev": prev}, **extra),
            f"p={p} histogram {sorted(hist.items())[:4]} ({fam}, branch {branch}): query() = "
            f"{got!r}, HLL++ estimator = {exp[0]!r}",
        )


def crossing_V(p, thr):
    m = 1 << p
    # smallest V with m*ln(m/V) <= thr
    V = int(math.ceil(m / math.exp(thr / m)))
    return max(1, min(m, V))


def crossing_k(p, r):
    """k such that the raw estimate with k registers at r+1 and m-k at r is ~5m."""
    m = 1 << p
    a = M6.alpha(m)
    # total = (m-k) 2^-r + k 2^-(r+1) = 2^-r (m - k/2);  E = a m^2 / total = 5m
    k = 2 * (m - a * m * (2.0**r) / 5.0)
    return int(round(k))


def task(arg):
    p, seed, tier, full = arg
    from ..pool import SubReporter
    from ..common import StopExploration

    sub = SubReporter(seed, tier, max_violations=3)
    tab = tables(p)
    thr, raw, bias = tab
    m = 1 << p
    sk = SK.make("hll", p, 0)
    stats = {"n": 0, "branches": set()}
    try:
        # table sanity
        if not all(raw[i] < raw[i + 1] for i in range(len(raw) - 1)):
            sub.violation({"p": p, "table": "monotone"}, f"raw_estimate[{p}] is not strictly increasing")
        if abs((raw[0] - bias[0]) - thr) > 1e-6 * thr:
            sub.violation({"p": p, "table": "start"},
                          f"p={p}: raw[0]-bias[0] = {raw[0]-bias[0]} does not equal the threshold {thr}")
        if abs((raw[-1] - bias[-1]) - 5 * m) > 1e-6 * 5 * m:
            sub.violation({"p": p, "table": "end"},
                          f"p={p}: raw[-1]-bias[-1] = {raw[-1]-bias[-1]} does not equal 5m = {5*m}")
        # (a)
        Vs = set(range(0, m + 1)) if full else set()
        vc = crossing_V(p, thr)
        Vs |= {v for v in range(vc - 64, vc + 65) if 0 <= v <= m}
        Vs |= {0, 1, 2, m - 1, m, m // 2}
        for r in (1, 2, 3, 4):
            for V in sorted(Vs):
                hist = {0: V, r: m - V}
                hist = {k: c for k, c in hist.items() if c}
                check_hist(sub, sk, p, tab, hist, "a", stats)
        # (b)
        for r in (1, 2, 3, 4, 5, 6):
            ks = set(range(0, m + 1)) if full else set()
            kc = crossing_k(p, r)
            ks |= {k for k in range(kc - 64, kc + 65) if 0 <= k <= m}
            ks |= {0, 1, m - 1, m, m // 3}
            for k in sorted(ks):
                hist = {r: m - k, r + 1: k}
                hist = {kk: c for kk, c in hist.items() if c}
                check_hist(sub, sk, p, tab, hist, "b", stats)
        # (c)
        top = 64 - p + 1
        for hist in ({0: m}, {1: m}, {0: 1, 1: m - 1}, {top: m}, {0: 1, top: m - 1},
                     {0: m - 1, top: 1}, {0: m - 1, 1: 1}):
            check_hist(sub, sk, p, tab, hist, "c", stats)
            check_hist(sub, sk, p, tab, hist, "c-shuffled", stats, shuffle=True)
        # (e) three-rank mixtures, also shuffled
        for z in (0, 1, m // 50 + 1, m // 7, m // 2):
            for k in (1, m // 5, m // 3):
                rest = m - z - k
                if rest <= 0:
                    continue
                for r in (1, 3, 7):
                    hist = {0: z, r: rest, r + 2: k}
                    hist = {kk: c for kk, c in hist.items() if c}
                    check_hist(sub, sk, p, tab, hist, "e", stats, shuffle=(r == 3))
        # (f) consecutive queries of ONE object on different register states with the SAME
        #     register sum (and the same number of zeros): the answer must follow the state
        if m % 4 == 0:
            pairs = [({2: m}, {1: m // 2, 3: m // 2}),
                     ({0: m // 4, 2: 3 * m // 4}, {0: m // 4, 1: m // 2, 4: m // 4}),
                     ({3: m}, {1: m // 2, 5: m // 2}),
                     ({0: 1, 2: m - 1}, {0: 1, 1: (m - 2) // 2 + 1, 3: (m - 2) // 2}) if (m - 2) % 2 == 0 else None]
            for pr in pairs:
                if pr is None:
                    continue
                h1, h2 = pr
                if sum(r * c for r, c in h1.items()) != sum(r * c for r, c in h2.items()):
                    continue
                for a_, b_ in ((h1, h2), (h2, h1), (h1, h2)):
                    check_hist(sub, sk, p, tab, a_, "f-same-sum", stats)
                    check_hist(sub, sk, p, tab, b_, "f-same-sum", stats)
        # (g) the same estimator through every handle of a shared-memory block: states are
        #     written through one handle and queried through the other (owner <-> attached view)
        owner, view = make_handles(p)
        for hist in handle_hists(p, thr):
            check_hist(sub, view, p, tab, hist, "g-view", stats, handle="view")
            check_hist(sub, owner, p, tab, hist, "g-owner", stats, handle="owner")
            check_hist(sub, view, p, tab, hist, "g-write-view-read-owner", stats,
                       handle="view>owner", reader=owner)
            check_hist(sub, owner, p, tab, hist, "g-write-owner-read-view", stats,
                       handle="owner>view", reader=view)
        del view, owner
        # (d) real key sets
        loads = (0.01, 0.1, 0.5, 1, 3, 10) + ((30, 100) if (p <= 12 or tier == "thorough") else ())
        real = SK.make("hll", p, 2**63 + seed)
        done = 0
        for load in loads:
            n = max(1, int(load * m))
            real.update([(i).to_bytes(8, "little") for i in range(done, n)])
            done = max(done, n)
            regs = real.registers
            vals, cnts = np.unique(regs, return_counts=True)
            hist = {int(v): int(c) for v, c in zip(vals, cnts)}
            got = float(real.query())
            exp, branch = ref_values(hist, p, tab)
            stats["n"] += 1
            stats["branches"].add((p, branch))
            if not any(abs(got - e) <= REL * max(1.0, abs(e)) for e in exp):
                sub.violation({"p": p, "hist": sorted(hist.items()), "shuffle": False},
                              f"p={p} registers of {n} real keys: query() = {got!r}, HLL++ "
                              f"estimator = {exp[0]!r} (branch {branch})")
    except StopExploration:
        pass
    return p, stats["n"], sorted(stats["branches"]), sub.violations


def pool_size(tier):
    return 10


def run(rep):
    from ..pool import run_tasks

    jobs = []
    for p in range(7, 17):
        full = (p <= 12) if rep.tier == "quick" else True
        jobs.append((p, rep.seed, rep.tier, full))
    res = run_tasks(__name__, "task", jobs)
    tot = 0
    branches = set()
    for p, n, br, viol in res:
        tot += n
        rep.violations.extend(viol)
        for b in br:
            branches.add(tuple(b))
            rep.nontrivial(tuple(b))
        rep.part(f"p{p}", histograms=n, branches=[b[1] for b in br])
        print(f"  p={p}: {n} histograms, branches {[b[1] for b in br]}", flush=True)
    rep.evals(tot)
    rep.set("states", tot)
    rep.set("transitions", tot)
    rep.set("traces_validated_against_impl", tot)
    rep.sample({"p": 7, "hist": [[0, 69], [1, 59]], "family": "a: around threshold[7]=80"})
    rep.sample({"p": 16, "hist": [[2, 30000], [3, 35536]], "family": "b: around 5m"})
    rep.set(
        "rule",
        "states = register histograms written into a real sketch (families a-e per precision), "
        "each evaluated by the real query() and by the reference estimator M6; non-trivial = "
        "distinct (precision, estimator branch) pairs reached",
    )
    need = {(p, b) for p in range(7, 17) for b in ("linear", "biascorr-zeros", "biascorr", "raw")}
    if not rep.violations and not need <= branches:
        raise MachineryError(f"C17 did not reach every estimator branch: missing {sorted(need - branches)[:5]}")


def replay(case):
    p = case["p"]
    tab = tables(p)
    m = 1 << p
    if "table" in case:
        thr, raw, bias = tab
        bad = {
            "monotone": not all(raw[i] < raw[i + 1] for i in range(len(raw) - 1)),
            "start": abs((raw[0] - bias[0]) - thr) > 1e-6 * thr,
            "end": abs((raw[-1] - bias[-1]) - 5 * m) > 1e-6 * 5 * m,
        }[case["table"]]
        return bad, {"table": case["table"]}
    from ..pool import SubReporter

    sub = SubReporter(max_violations=10**9)
    sk = SK.make("hll", p, 0)
    reader = None
    if case.get("handle"):
        owner, view = make_handles(p)
        h = case["handle"]
        sk = view if h.startswith("view") else owner
        if ">" in h:
            reader = owner if h.endswith("owner") else view
    hist = {int(r): int(c) for r, c in case["hist"]}
    stats = {"n": 0, "branches": set()}
    # the same object was queried on other register states just before: replay those too
    for ph, psh in case.get("prev", []):
        check_hist(sub, sk, p, tab, {int(r): int(c) for r, c in ph}, "replay-prev", stats, shuffle=psh,
                   reader=reader)
    sub.violations = []
    check_hist(sub, sk, p, tab, hist, "replay", stats, shuffle=case.get("shuffle", False),
               reader=reader)
    return bool(sub.violations), {"problems": [m_ for _, m_ in sub.violations]}
