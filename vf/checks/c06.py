"""C06 - log counters are exact in the reserved range and unbiased beyond it.

(i)   E3, ALL counter states x configuration grid: on a one-cell real sketch the
      advance threshold p_impl(c) of the real add() is EXTRACTED by bisection
      over the IEEE-754 bit patterns of the placed draw (exact to one ulp).
      c < num_reserved: always advances, no draw consumed; c = ceiling: never
      changes; otherwise p_impl = base^-(c-nr) (1e-12) and the unbiasedness
      identity p_impl(c) * (decode(c+1)-decode(c)) = 1 (1e-9).
(ii)  probabilistic model checking of the DTMC read off the implementation: the
      exact distribution of the counter after N unit adds is propagated with the
      extracted p_impl; E[decode] = N while the mass at the ceiling is < 1e-12.
(iii) E1: est >= min(true, num_reserved+1) in every state of log8/log16 history
      graphs (adds with every draw vector, merges).
(iv)  E3, ALL pointer states 0..2048 x {log8,log16} x {add, add_ngram}: a
      patterned batch shows which entry was consumed (must be rand_nums[ptr],
      pointer stored back as ptr+1); at 2048 the batch is replaced by the next
      2048 numbers of numba's generator (compared with the reference stream
      after the same seed), two consecutive refills differ, entry 0 is consumed.
(v)   bulk adds with multiplicities 2^32-1 .. 2^40 on quickly saturating sketches keep
      the lower bound and the element count.
(vi)  two sketches alive in one process never share or overwrite each other's draws.
(vii) from every start value in the reserved range, bulk adds that end at or below
      num_reserved+1 are exact under worst-case draws (7 configurations).
"""
import math
import struct

import numpy as np

from .. import sk as SK
from ..bfs import merge_stats
from ..common import MachineryError
from . import c01
from . import cm_common as C

PROP = "C06"
LEVEL = "model_checking"
ADV, STAY = C.ADV, C.STAY


def f2b(x):
    return struct.unpack("<Q", struct.pack("<d", x))[0]


def b2f(b):
    return struct.unpack("<d", struct.pack("<Q", b))[0]


def advances(sk, c, u):
    """Does one unit add move the single counter from c when the next draw is u?"""
    sk.cms[0, 0] = c
    sk.rand_nums[0] = u
    sk.rand_ptr = 0
    sk.add(b"k", 1)
    return int(sk.cms[0, 0]) != c, int(sk.rand_ptr)


def extract(sk, c):
    """Smallest draw that does NOT advance counter c (= the implementation's
    threshold), found by bisection over float bit patterns of [0, 1]."""
    lo, hi = 0, f2b(1.0)  # invariant: lo advances (or nothing does), hi does not
    a, _ = advances(sk, c, 0.0)
    if not a:
        return 0.0
    a, _ = advances(sk, c, STAY)
    if a:
        return 1.0  # every draw in [0,1) advances
    hi = f2b(STAY)
    while hi - lo > 1:
        mid = (lo + hi) // 2
        a, _ = advances(sk, c, b2f(mid))
        if a:
            lo = mid
        else:
            hi = mid
    return b2f(hi)


def transition_law(sub, kind, mc, nr, counters=None):
    sk = SK.make(kind, 1, 1, mc, nr)
    top = int(sk.uint_maxval)
    base = float(sk.base)
    sk.rand_nums[:] = 0.5
    dec = np.empty(top + 1)
    for c in range(top + 1):
        sk.cms[0, 0] = c
        dec[c] = sk.query(b"k")
    p = np.zeros(top + 1)
    n = 0
    cs = range(top + 1) if counters is None else counters
    for c in cs:
        n += 1
        case = {"part": "law", "kind_": kind, "mc": mc, "nr": nr, "c": c}
        if c < nr:
            a0, ptr0 = advances(sk, c, STAY)
            moved = int(sk.cms[0, 0])
            if not a0 or moved != c + 1 or ptr0 != 0:
                sub.violation(case, f"{kind}({mc},{nr}) counter {c} < num_reserved: a unit add "
                                    f"gave {moved} and consumed {ptr0} draws (must be exact, no draw)")
            p[c] = 1.0
            if dec[c] != c:
                sub.violation(case, f"{kind}({mc},{nr}): decode({c}) = {dec[c]} in the reserved range")
            continue
        if c == top:
            a0, _ = advances(sk, c, ADV)
            if a0:
                sub.violation(case, f"{kind}({mc},{nr}): the maximum counter {c} changed on add")
            p[c] = 0.0
            continue
        t = extract(sk, c)
        p[c] = t
        want = base ** (-(c - nr))
        if not abs(t - want) <= 1e-12 * want:
            sub.violation(case, f"{kind}({mc},{nr}) counter {c}: advance probability {t!r}, "
                                f"expected base^-(c-nr) = {want!r}")
        step = dec[c + 1] - dec[c]
        if not abs(t * step - 1.0) <= 1e-9:
            sub.violation(case, f"{kind}({mc},{nr}) counter {c}: p*(decode(c+1)-decode(c)) = "
                                f"{t*step!r}, must be 1 (unbiased)")
        if c <= nr + 1 and dec[c] != c:
            sub.violation(case, f"{kind}({mc},{nr}): decode({c}) = {dec[c]} (must equal the counter "
                                f"up to num_reserved+1)")
    return p, dec, n


def chain(sub, kind, mc, nr, p, dec, Ns):
    """Exact distribution after N unit adds from the empty counter."""
    top = len(p) - 1
    dist = np.zeros(top + 1)
    dist[0] = 1.0
    done = 0
    n = 0
    for N in sorted(Ns):
        for _ in range(N - done):
            mv = dist * p
            dist = dist - mv
            dist[1:] += mv[:-1]
        done = N
        n += 1
        if dist[top] >= 1e-12:
            continue
        e = float(np.dot(dist, dec))
        if not abs(e - N) <= 1e-9 * N:
            sub.violation({"part": "chain", "kind_": kind, "mc": mc, "nr": nr, "N": N},
                          f"{kind}({mc},{nr}): expected estimate after {N} unit adds is {e!r}")
        if N <= nr + 1:
            if not abs(dist[N] - 1.0) <= 1e-12:
                sub.violation({"part": "chain", "kind_": kind, "mc": mc, "nr": nr, "N": N},
                              f"{kind}({mc},{nr}): {N} <= num_reserved+1 adds are not counted exactly")
    return n


def law_task(arg):
    kind, mc, nr, seed, tier = arg
    from ..pool import SubReporter
    from ..common import StopExploration

    sub = SubReporter(seed, tier)
    n = m = 0
    try:
        try:
            SK.make(kind, 1, 1, mc, nr)
        except ValueError:
            return kind, mc, nr, 0, 0, []
        p, dec, n = transition_law(sub, kind, mc, nr)
        Ns = [1, 2, 3, nr, nr + 1, nr + 2, 50, 200, 1000] + ([5000] if tier == "thorough" else [2000])
        Ns = sorted({x for x in Ns if x >= 1})
        m = chain(sub, kind, mc, nr, p, dec, Ns)
    except StopExploration:
        pass
    return kind, mc, nr, n, m, sub.violations


# ---------------------------------------------------------------- (iv) draw supply
_JIT = {}


def jit_helpers():
    if not _JIT:
        from numba import njit

        @njit
        def seed(s):
            np.random.seed(s)

        @njit
        def draw(n):
            return np.random.rand(n)

        _JIT["seed"], _JIT["draw"] = seed, draw
    return _JIT["seed"], _JIT["draw"]


def pointer_states(rep):
    seed_fn, draw_fn = jit_helpers()
    n = 0
    for kind, args in (("log8", [1, 1, 1000, 2]), ("log16", [1, 1, 10**6, 2])):
        sk = SK.make(kind, *args)
        c = 40  # probabilistic range; threshold strictly between ADV and STAY
        for entry in ("add", "ngram", "ngram3"):
            # "ngram3": a document LONGER than n - three n-grams, three draws in a row
            nd = 3 if entry == "ngram3" else 1
            for ptr in range(0, 2048 - nd + 1):
                for idx in range(ptr - 1, ptr + nd + 1):
                    expect = ptr <= idx < ptr + nd
                    if idx < 0 or idx >= 2048:
                        continue
                    sk.rand_nums[:] = STAY
                    sk.rand_nums[idx] = ADV
                    sk.rand_ptr = ptr
                    sk.cms[0, 0] = c
                    if entry == "add":
                        sk.add(b"k", 1)
                    elif entry == "ngram":
                        sk.add_ngram(b"k", 3)
                    else:
                        sk.add_ngram(b"kkkk", 2)
                    got = int(sk.cms[0, 0]) - c
                    n += 1
                    if got != int(expect) or int(sk.rand_ptr) != ptr + nd:
                        rep.violation(
                            {"part": "ptr", "kind_": kind, "args": args, "entry": entry, "ptr": ptr,
                             "idx": idx},
                            f"{kind} {entry}: with rand_ptr={ptr} the {nd} draw(s) consumed are not "
                            f"rand_nums[{ptr}..{ptr+nd-1}] (counter advanced by {got} with the only "
                            f"advancing entry at {idx}) or the pointer was stored as "
                            f"{int(sk.rand_ptr)}, not {ptr+nd}",
                        )
                rep.nontrivial((kind, entry, ptr))
            # pointer at the end of the batch: refill
            for s in (rep.seed + 1, rep.seed + 77):
                seed_fn(s)
                ref = draw_fn(4096)
                seed_fn(s)
                old = np.full(2048, STAY)
                sk.rand_nums[:] = old
                sk.rand_ptr = 2048
                sk.cms[0, 0] = c
                t = float(sk.base) ** (-(c - int(sk.num_reserved)))
                if entry == "add":
                    sk.add(b"k", 1)
                else:
                    sk.add_ngram(b"k", 3)  # one draw (ngram3's three draws are covered above)
                new1 = sk.rand_nums.copy()
                adv = int(sk.cms[0, 0]) != c
                n += 1
                case = {"part": "refill", "kind_": kind, "args": args, "entry": entry, "seed": s}
                if not np.array_equal(new1, ref[:2048]):
                    rep.violation(case, f"{kind} {entry}: at rand_ptr=2048 the batch was not "
                                        f"replaced by the next 2048 numbers of the generator "
                                        f"({int((new1 == old).sum())} entries recycled)")
                elif not ((new1 >= 0).all() and (new1 < 1).all()):
                    rep.violation(case, f"{kind} {entry}: refilled draws are not in [0,1)")
                elif adv != (new1[0] < t) or int(sk.rand_ptr) != 1:
                    rep.violation(case, f"{kind} {entry}: after the refill entry 0 of the new batch "
                                        f"was not the draw consumed (ptr={int(sk.rand_ptr)})")
                # a second refill must be the following block
                sk.rand_ptr = 2048
                sk.cms[0, 0] = c
                sk.add(b"k", 1)
                n += 1
                if not np.array_equal(sk.rand_nums, ref[2048:]) or np.array_equal(sk.rand_nums, new1):
                    rep.violation(case, f"{kind} {entry}: the second refill is not the next block "
                                        f"of the generator (draws recycled)")
                rep.nontrivial((kind, entry, 2048, s))
    rep.part("pointer_states", cases=n)
    return n


# ---------------------------------------------------------------- (v), (vi)
def huge_multiplicities(rep):
    """(v) one bulk add with a multiplicity at / beyond 2^32 on a sketch whose ceiling is
    reached quickly: the estimate must still be >= min(true, num_reserved+1) (it is in fact
    the ceiling) and n_added() must grow by the multiplicity."""
    seed_fn, _ = jit_helpers()
    n = 0
    for kind, args in (("log8", [2, 2, 1000, 15]), ("log16", [2, 2, 100000, 1023]),
                       ("log8", [1, 1, 300, 250])):
        for v in (65536, 3 * 65536 + 1, 2**31, 2**32 - 1, 2**32, 2**32 + 3, 2**33 + 1, 2**40):
            sk = SK.make(kind, *args)
            seed_fn(rep.seed + 11)
            sk.rand_nums[:] = ADV
            sk.rand_ptr = 0
            sk.add(b"bulk", v)
            est = float(sk.query(b"bulk"))
            n += 1
            lo = min(v, int(sk.num_reserved) + 1)
            if est < lo:
                rep.violation({"part": "huge", "kind_": kind, "args": args, "v": v},
                              f"{kind}{args}: after add(key, {v}) the estimate is {est}, below "
                              f"min(true, num_reserved+1) = {lo}")
            if int(sk.n_added()) != v:
                rep.violation({"part": "huge", "kind_": kind, "args": args, "v": v},
                              f"{kind}{args}: add(key, {v}) changed n_added() by {int(sk.n_added())}")
            rep.nontrivial(("huge", kind, v))
    return n


def reserved_bulk(rep):
    """(vii) a bulk add that stays inside the reserved range is exact whatever the draws:
    from EVERY start value c0 <= num_reserved, add(key, num_reserved+1-c0) with every draw
    equal to the largest double below 1 must end exactly at num_reserved+1; likewise the
    partial steps c0 -> num_reserved and c0 -> c0+2."""
    n = 0
    stay = np.nextafter(1.0, 0.0)
    for kind, args in (("log16", [1, 1]), ("log16", [1, 1, 10**6, 2]), ("log8", [1, 1]),
                       ("log8", [1, 1, 10**6, 50]), ("log8", [1, 1, 1000, 100]),
                       ("log8", [1, 1, 2**40, 200]), ("log16", [1, 1, 2**40, 5000])):
        sk = SK.make(kind, *args)
        nr = int(sk.num_reserved)
        for c0 in range(0, nr + 1):
            for v in {nr + 1 - c0, max(0, nr - c0), min(2, nr + 1 - c0)}:
                sk.cms[0, 0] = c0
                sk.rand_nums[:] = stay
                sk.rand_ptr = 0
                sk.add(b"k", v)
                n += 1
                got = int(sk.cms[0, 0])
                if got != c0 + v:
                    rep.violation({"part": "bulk", "kind_": kind, "args": args, "c0": c0, "v": v},
                                  f"{kind}{args}: counter {c0}, add(key, {v}) with draws just below "
                                  f"1 gives {got}; inside the reserved range (<= num_reserved+1 = "
                                  f"{nr+1}) it must be exactly {c0+v}")
        rep.nontrivial(("bulk", kind, tuple(args)))
    return n


def two_live_sketches(rep):
    """(vi) the draws of one sketch are not the draws of another: two sketches alive in one
    process have separate batches (constructor batches differ, a refill of one does not
    touch the other's, consecutive refills of different sketches are consecutive blocks)."""
    seed_fn, draw_fn = jit_helpers()
    n = 0
    for ka, kb in (("log8", "log8"), ("log16", "log16"), ("log8", "log16")):
        a = SK.make(ka, 1, 1, 1000 if ka == "log8" else 10**6, 2)
        b = SK.make(kb, 1, 1, 1000 if kb == "log8" else 10**6, 2)
        case = {"part": "twolive", "ka": ka, "kb": kb}
        n += 1
        if np.shares_memory(a.rand_nums, b.rand_nums):
            rep.violation(case, f"two live sketches ({ka}, {kb}) share one batch of random draws")
            continue
        if np.array_equal(a.rand_nums, b.rand_nums):
            rep.violation(case, f"two new sketches ({ka}, {kb}) start with identical draw batches")
        s = rep.seed + 5
        seed_fn(s)
        ref = draw_fn(4096)
        seed_fn(s)
        for sk in (a, b):
            sk.cms[0, 0] = 40
            sk.rand_ptr = 2048
        a.add(b"k", 1)
        a1 = a.rand_nums.copy()
        b.add(b"k", 1)
        if not np.array_equal(a.rand_nums, a1):
            rep.violation(case, f"a refill of one sketch ({kb}) overwrote the draws of another ({ka})")
        elif not (np.array_equal(a1, ref[:2048]) and np.array_equal(b.rand_nums, ref[2048:])):
            rep.violation(case, f"refills of two live sketches ({ka}, {kb}) are not consecutive "
                                f"blocks of the generator (draws recycled between sketches)")
        rep.nontrivial(("twolive", ka, kb))
    return n


# ---------------------------------------------------------------- (iii) lower bound
def lower_configs(tier):
    out = []
    D = 3 if tier == "quick" else 4
    for kind, mc in (("log8", 1000), ("log16", 10**6)):
        for w, d in ([(1, 1), (2, 2)] if tier == "quick" else [(1, 1), (2, 2), (3, 2)]):
            out.append(dict(kind=kind, args=[w, d, mc, 2], S=2, mults=[1, 3], ngrams=[], depth=D,
                            saveload=False))
        out.append(dict(kind=kind, args=[2, 2], S=2, mults=[1, 3, 20], ngrams=[], depth=3))
    return out


def pool_size(tier):
    return 16


def run(rep):
    from ..pool import run_tasks

    salt = rep.seed
    g8 = [(mc, nr) for mc in (300, 1000, 10**6, 2**32 - 1, 2**63) for nr in (0, 1, 15, 100, 200)]
    g16 = [(2**32 - 1, 1023)]
    if rep.tier == "thorough":
        g16 += [(10**6, 2), (2**40, 0), (10**5, 1023), (2**63, 30000)]
    jobs = [("log8", mc, nr, salt, rep.tier) for mc, nr in g8]
    jobs += [("log16", mc, nr, salt, rep.tier) for mc, nr in g16]
    # (iii) runs in the same pool
    low = [(c, rep.seed, rep.tier, ("lower",)) for c in lower_configs(rep.tier)]
    res_low = run_tasks(c01.__name__, "task", low)
    res = run_tasks(__name__, "law_task", jobs)
    states = 0
    for kind, mc, nr, n, m, viol in res:
        rep.violations.extend(viol)
        if n == 0:
            continue
        states += n
        rep.evals(n + m)
        rep.nontrivial((kind, mc, nr))
        rep.part(f"law-{kind}-{mc}-{nr}", counter_states=n, chain_checkpoints=m)
    print(f"  transition law: {states} counter states over {len(res)} configurations", flush=True)
    rep.add("states", states)
    rep.add("transitions", states)
    rep.add("traces_validated_against_impl", states)
    for cfg, st, viol in res_low:
        for case, msg in viol:
            case["part"] = "lower"
            rep.violations.append((case, msg))
        merge_stats(rep, "lower-" + C.label(cfg), cfg, st)
    n = pointer_states(rep) + huge_multiplicities(rep) + two_live_sketches(rep) + reserved_bulk(rep)
    rep.evals(n)
    rep.add("transitions", n)
    rep.add("traces_validated_against_impl", n)
    print(f"  pointer states: {n} cases", flush=True)
    rep.sample({"part": "law", "kind": "log8", "max_count": 1000, "num_reserved": 15, "counter": 200,
                "extracted": "bisection over 2^62 float bit patterns"})
    rep.set("closed", False)
    rep.set(
        "rule",
        "(i) states = (configuration, counter value), each with its advance threshold extracted "
        "from the real add(); (ii) exact Markov chain from those thresholds; (iii) BFS states of "
        "log history graphs; (iv) every rand_ptr value x entry point; non-trivial = distinct "
        "configurations / pointer values / colliding BFS states",
    )
    if states < 5000 and not rep.violations:
        raise MachineryError("C06 covered too few counter states")


def replay(case):
    from ..pool import SubReporter

    part = case.get("part")
    if part == "lower":
        c = dict(case)
        c["modes"] = ["lower"]
        return c01.replay(c)
    sub = SubReporter(max_violations=10**9)  # a replay never stops early
    sub.nontrivial = lambda t: None
    sub.part = lambda *a, **k: None
    sub.seed = case.get("seed", 1) - 1
    if part == "law":
        transition_law(sub, case["kind_"], case["mc"], case["nr"], counters=[case["c"]])
    elif part == "chain":
        p, dec, _ = transition_law(sub, case["kind_"], case["mc"], case["nr"])
        sub.violations = []
        chain(sub, case["kind_"], case["mc"], case["nr"], p, dec, [case["N"]])
    elif part == "huge":
        huge_multiplicities(sub)
        sub.violations = [(c, m) for c, m in sub.violations if c.get("v") == case["v"]
                          and c.get("kind_") == case["kind_"]]
    elif part == "twolive":
        two_live_sketches(sub)
    elif part == "bulk":
        reserved_bulk(sub)
        sub.violations = [(c, m) for c, m in sub.violations
                          if (c.get("kind_"), c.get("args"), c.get("c0"), c.get("v")) ==
                          (case["kind_"], case["args"], case["c0"], case["v"])]
    else:
        pointer_states(sub)
        want = {k: case[k] for k in ("part", "kind_", "entry")}
        sub.violations = [(c, m) for c, m in sub.violations
                          if all(c.get(k) == v for k, v in want.items())]
    return bool(sub.violations), {"problems": [m for _, m in sub.violations][:3]}
