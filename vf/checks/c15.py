"""C15 - merging incompatible sketches is refused and changes nothing.

E3: per family a base configuration and every single-parameter variant; ALL
ordered pairs, both operands non-empty, operands in memory and in shared
memory.  Incompatible pair => TypeError and the full state of both operands is
bit-for-bit unchanged; compatible pair => merge() does not raise.  In a second
pass one operand went through save()/load() (in memory / shared memory).
"""
import itertools

from .. import sk as SK
from ..bfs import capture
from ..common import quiet_shm, MachineryError

PROP = "C15"
LEVEL = "model_checking"
SKIP = ("rand_nums", "rand_ptr", "buckets")


def families(seed):
    s = seed % 3
    cm = [
        ("linear", [4 + s, 3]),
        ("linear", [5 + s, 3]),
        ("linear", [4 + s, 2]),
        ("log16", [4 + s, 3]),
        ("log16", [5 + s, 3]),
        ("log16", [4 + s, 4]),
        ("log16", [4 + s, 3, 2**32 - 2, 1023]),
        ("log16", [4 + s, 3, 2**32 - 1, 1022]),
        ("log16", [4 + s, 3, 2**40, 1023]),
        ("log8", [4 + s, 3]),
        ("log8", [5 + s, 3]),
        ("log8", [4 + s, 1]),
        ("log8", [4 + s, 3, 2**32 - 2, 15]),
        ("log8", [4 + s, 3, 2**32 - 1, 14]),
        ("log8", [4 + s, 3, 10**6, 15]),
        # the two log widths with IDENTICAL explicit (max_count, num_reserved): only the counter
        # type differs
        ("log16", [4 + s, 3, 10**6, 15]),
        # neighbouring LARGE max_counts: the derived float base is identical, max_count is not
        ("log16", [4 + s, 3, 2**60, 1023]),
        ("log16", [4 + s, 3, 2**60 + 1, 1023]),
        ("log8", [4 + s, 3, 2**53, 15]),
        ("log8", [4 + s, 3, 2**53 + 1, 15]),
        ("log8", [4 + s, 3, 2**64 - 1, 15]),
        ("log8", [4 + s, 3, 2**64 - 2, 15]),
    ]
    hll = [
        ("hll", [8, 0]),
        ("hll", [9, 0]),
        ("hll", [8, 1]),
        ("hll", [8, 2**32]),  # differs from seed 0 only above bit 31
        ("hll", [8, 2**63]),
        ("hll", [8, 2**64 - 1]),
        ("hll", [16, 0]),
    ]
    hh = [
        ("hh", [3 + s, 2, 4]),
        ("hh", [4 + s, 2, 4]),
        ("hh", [3 + s, 3, 4]),
        ("hh", [3 + s, 2, 5]),
        ("hh", [3 + s, 2, 3]),
        ("hh", [3 + s, 2, 4, 0.05]),  # phi differs: compatible
    ]
    return {"count-min": cm, "hyperloglog": hll, "heavy-hitters": hh}


def compat_key(kind, args):
    """The parameters the property says must agree."""
    if kind == "linear":
        return ("linear", args[0], args[1])
    if kind in ("log16", "log8"):
        d = {"log16": (2**32 - 1, 1023), "log8": (2**32 - 1, 15)}[kind]  # constructor defaults
        mc = args[2] if len(args) > 2 else d[0]
        nr = args[3] if len(args) > 3 else d[1]
        return (kind, args[0], args[1], mc, nr)
    if kind == "hll":
        return ("hll", args[0], args[1])
    return ("hh", args[0], args[1], args[2])


def fill(sk, kind, i, cancelled=False):
    if hasattr(sk, "rand_nums"):
        SK.install_draws(sk, [])
    for j, k in enumerate((b"a", b"bb", b"\x00", b"key-%d" % i)):
        sk.add(k, 1 + j)
    if kind != "hll":
        sk.n_added_records[1] = 2 + i
    if cancelled and kind == "hh":
        # every Boyer-Moore counter cancelled back to 0 (as after equally frequent keys sharing
        # each cell): the sketch is NOT empty - n_added() > 0 - but stores no count
        sk.lhh_count[...] = 0


def run(rep):
    quiet_shm()
    pairs = bad = 0
    for fam, cfgs in families(rep.seed).items():
        for shared_a, shared_b in itertools.product((False, True), repeat=2):
            if rep.tier == "quick" and shared_a != shared_b:
                continue
            for (i, (ka, aa)), (j, (kb, ab)) in itertools.product(enumerate(cfgs), repeat=2):
              for cancelled in ((False, True) if fam == "heavy-hitters" and not shared_a else (False,)):
                a = SK.make(ka, *aa, shared_memory=shared_a)
                b = SK.make(kb, *ab, shared_memory=shared_b)
                fill(a, ka, i)
                fill(b, kb, j, cancelled)
                ca, cb = capture(a, SKIP), capture(b, SKIP)
                compatible = compat_key(ka, aa) == compat_key(kb, ab)
                exc = None
                try:
                    a.merge(b)
                except Exception as e:  # noqa
                    exc = e
                pairs += 1
                rep.evals()
                case = {"a": [ka, aa, shared_a], "b": [kb, ab, shared_b], "cancelled": cancelled}
                if compatible:
                    if exc is not None:
                        rep.violation(case, f"compatible {ka}{aa}.merge({kb}{ab}) raised "
                                            f"{type(exc).__name__}: {exc}")
                else:
                    bad += 1
                    rep.nontrivial((fam, i, j))
                    if not isinstance(exc, TypeError):
                        rep.violation(
                            case,
                            f"incompatible {ka}{aa}.merge({kb}{ab}) "
                            + ("did not raise" if exc is None else
                               f"raised {type(exc).__name__} instead of TypeError"),
                        )
                    if capture(a, SKIP) != ca or capture(b, SKIP) != cb:
                        rep.violation(case, f"refused merge {ka}{aa}.merge({kb}{ab}) modified an operand")
                del a, b
        rep.part(fam, configurations=len(cfgs))
    pairs += loaded_operands(rep)
    rep.set("states", pairs)
    rep.set("transitions", pairs)
    rep.set("traces_validated_against_impl", pairs)
    rep.set("incompatible_pairs", bad)
    rep.sample({"a": ["hll", [8, 0]], "b": ["hll", [8, 2**32]], "expect": "TypeError, both unchanged"})
    rep.sample({"a": ["log16", [4, 3]], "b": ["log8", [4, 3]], "expect": "TypeError"})
    rep.set(
        "rule",
        "all ordered pairs of configurations within each family (single-parameter variants of a "
        "base + all counter types), operands in memory / in shared memory, both non-empty; "
        "non-trivial = distinct incompatible ordered pairs",
    )
    if bad < 100:
        raise MachineryError("C15 grid has too few incompatible pairs")


def _loaded(kind, args, i, shared):
    """A sketch of this configuration that went through save() / load()."""
    import os
    import tempfile

    pre = SK.make(kind, *args)
    fill(pre, kind, i)
    fd, path = tempfile.mkstemp(suffix=".npz", dir="/dev/shm")
    os.close(fd)
    try:
        pre.save(path)
        return SK.classes()[kind].load(path, shared)
    finally:
        os.unlink(path)


def loaded_case(A, B, i, j, shared, direction):
    """Operand L = configuration A (index i) after save/load, operand F = fresh configuration
    B (index j).  direction 0: L.merge(F); 1: F.merge(L)."""
    (ka, aa), (kb, ab) = A, B
    L = _loaded(ka, aa, i, shared)
    F = SK.make(kb, *ab)
    fill(F, kb, j)
    a, b = (L, F) if direction == 0 else (F, L)
    ca, cb = capture(a, SKIP), capture(b, SKIP)
    compatible = compat_key(ka, aa) == compat_key(kb, ab)
    exc = None
    try:
        a.merge(b)
    except Exception as e:  # noqa
        exc = e
    changed = capture(a, SKIP) != ca or capture(b, SKIP) != cb
    if compatible:
        bad = exc is not None
        msg = (f"loaded {ka}{aa} and fresh {kb}{ab} agree on every parameter but merge raised "
               f"{type(exc).__name__}: {exc}") if bad else ""
    else:
        bad = (not isinstance(exc, TypeError)) or changed
        msg = (f"loaded {ka}{aa} / fresh {kb}{ab} (incompatible): "
               + ("did not raise" if exc is None else f"raised {type(exc).__name__}"
                  if not isinstance(exc, TypeError) else "an operand was modified")) if bad else ""
    del a, b, L, F
    return bad, msg, {"compatible": compatible, "raised": type(exc).__name__ if exc else None,
                      "operands_changed": changed if not compatible else None}


def loaded_operands(rep):
    """One operand went through save()/load() (in memory and in shared memory): it must still
    merge with a fresh sketch of its own configuration, in both directions, and still be
    refused by every other configuration of the family."""
    n = 0
    for fam, cfgs in families(rep.seed).items():
        for i in range(len(cfgs)):
            for j in ([i] + [x for x in range(len(cfgs)) if x != i][: (3 if rep.tier == "quick" else 99)]):
                for shared in (False, True):
                    for direction in (0, 1):
                        bad, msg, _ = loaded_case(cfgs[i], cfgs[j], i, j, shared, direction)
                        n += 1
                        rep.evals()
                        if bad:
                            rep.violation({"loaded": True, "a": list(cfgs[i]), "b": list(cfgs[j]),
                                           "i": i, "j": j, "shared": shared,
                                           "direction": direction}, msg)
        rep.nontrivial(("loaded", fam))
    rep.part("loaded_operands", pairs=n)
    return n


def replay(case):
    quiet_shm()
    if case.get("loaded"):
        bad, msg, obs = loaded_case(tuple(case["a"]), tuple(case["b"]), case["i"], case["j"],
                                    case["shared"], case["direction"])
        return bad, obs
    ka, aa, sa = case["a"]
    kb, ab, sb = case["b"]
    a = SK.make(ka, *aa, shared_memory=sa)
    b = SK.make(kb, *ab, shared_memory=sb)
    fill(a, ka, 0)
    fill(b, kb, 1, bool(case.get("cancelled")))
    ca, cb = capture(a, SKIP), capture(b, SKIP)
    compatible = compat_key(ka, aa) == compat_key(kb, ab)
    exc = None
    try:
        a.merge(b)
    except Exception as e:  # noqa
        exc = e
    changed = capture(a, SKIP) != ca or capture(b, SKIP) != cb
    if compatible:
        bad = exc is not None
    else:
        bad = (not isinstance(exc, TypeError)) or changed
    return bad, {"compatible": compatible, "raised": type(exc).__name__ if exc else None,
                 "operands_changed": changed if not compatible else None}
