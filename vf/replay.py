"""Replay one recorded counterexample without the explorer.

    /venv/bin/python -m vf.replay replays/C03-xxxx.json

Rebuilds fresh objects, applies the recorded case, prints what was observed and
exits 1 if the violation reproduces, 0 if it does not.
"""
import importlib
import json
import sys

from . import common


def main(argv=None):
    argv = argv or sys.argv[1:]
    if not argv:
        print(__doc__)
        return 2
    with open(argv[0]) as f:
        blob = json.load(f)
    common.import_sketchnu()
    mod = importlib.import_module(blob["module"])
    case = common.dec(blob["case"])
    violated, observed = mod.replay(case)
    print(f"property : {blob['property']}")
    print(f"case     : {common.short(case, 2000)}")
    print(f"recorded : {blob.get('message')}")
    print(f"observed : {common.short(observed, 2000)}")
    print("VIOLATION reproduces" if violated else "no violation on this tree")
    return 1 if violated else 0


if __name__ == "__main__":
    sys.exit(main())
