"""E2 - controlled scheduler: a simulated multiprocessing *spawn* context under
which the REAL sketchnu.helpers.parallel_add / _fill_queue / _log_worker /
_worker / parallel_merging / _merge_worker run unmodified, in-process.

  SimContext.Process  a thread gated by a per-process semaphore (one baton: exactly
                      one simulated process runs at a time).  start() round-trips
                      (target, args, kwargs) through multiprocessing's ForkingPickler,
                      i.e. spawn semantics: arguments must pickle, children get copies.
                      exitcode / join / kill follow CPython 3.12 BaseProcess.
                      A callback may raise SimExit(code) to model os._exit(code).
  SimContext.Queue    FIFO whose put() pickles, blocks when full and raises ValueError
                      after close() *by the same process* (close is per handle, as in
                      multiprocessing.queues.Queue); get() blocks when empty.
  helpers.sleep       lowest-priority yield (the caller resumes when nobody else can run)
  helpers.datetime    virtual clock
  helpers.psutil      cpu_count() is an environment answer chosen by the explorer

Every simulated operation is a scheduling point.  At each point the runnable
processes are listed in canonical order (the running one first if it can go on,
then ascending pid; a sleeper last) and the next entry of `choices` selects one
(default 0 = run-to-block).  The work queue can additionally be *directed*: item
j may only be taken by worker assign[j], which turns an execution into a
function of its assignment vector.
"""
import io
import pickle
import threading
from datetime import datetime, timedelta
from multiprocessing.reduction import ForkingPickler


class SimExit(BaseException):
    """Raised inside a simulated process: the process ends NOW with this exit code
    (models os._exit: no cleanup code of the worker loop runs)."""

    def __init__(self, code):
        self.code = code


class SimKilled(BaseException):
    pass


class SimDeadlock(BaseException):
    """No simulated process can run while the main one has not finished."""


class SimHang(BaseException):
    """Step horizon exceeded (only pollers are running)."""


_QUEUES = {}


def _rebuild_queue(qid):
    return _QUEUES[qid]


class Scheduler:
    def __init__(self, choices=(), assign=None, horizon=200000):
        self.procs = []
        self.choices = list(choices)
        self.points = []  # number of options at every scheduling point
        self.taken = []  # choice taken
        self.assign = assign  # item index -> worker id (or None)
        self.horizon = horizon
        self.steps = 0
        self.failure = None
        self.clock = datetime(2026, 1, 1)
        self.current = None
        self.work_queue = None
        self.delivered = []  # (item index, worker pid order) as delivered
        self.log = []
        main = SimProcess(self, None, (), {}, name="main")
        main.state = "ready"
        main.started = True
        self.main = main
        self.current = main

    # ---- bookkeeping ---------------------------------------------------
    def register(self, p):
        p.pid = len(self.procs)
        self.procs.append(p)

    def runnable(self):
        live = [p for p in self.procs if p.started and p.state != "done"]
        normal = [p for p in live if not p.sleeping and (p.cond is None or p.cond())]
        if normal:
            sleepers = [p for p in live if p.sleeping]
        else:
            sleepers = [p for p in live if p.sleeping]
        cur = self.current
        out = []
        if cur in normal:
            out.append(cur)
        out += sorted((p for p in normal if p is not cur), key=lambda p: p.pid)
        # a sleeper may always be woken (a timer can land first) but comes last
        out += sorted(sleepers, key=lambda p: p.pid)
        return out

    def pick(self):
        self.steps += 1
        if self.steps > self.horizon:
            self.failure = SimHang(f"step horizon {self.horizon} exceeded")
            return self.main
        r = self.runnable()
        if not r:
            return None
        i = len(self.points)
        self.points.append(len(r))
        c = self.choices[i] if i < len(self.choices) else 0
        if c >= len(r):
            raise RuntimeError(f"schedule replay diverged: choice {c} of {len(r)} at point {i}")
        self.taken.append(c)
        return r[c]

    def point(self, cond=None, sleeping=False):
        """A scheduling point of the running process.  cond: callable that must be
        true before the process may continue (None = can continue at once)."""
        cur = self.current
        cur.cond = cond
        cur.sleeping = sleeping
        nxt = self.pick()
        if nxt is None:
            # nobody can run
            if cur is self.main or True:
                self.failure = SimDeadlock(self.describe())
                nxt = self.main
        self._switch(cur, nxt)
        cur.cond = None
        cur.sleeping = False

    def _switch(self, cur, nxt):
        if nxt is not cur:
            self.current = nxt
            nxt.sem.release()
            cur.sem.acquire()
        cur.after_wake()

    def finish(self, p):
        """Called by a process thread when its target returned / exited."""
        p.state = "done"
        nxt = self.pick()
        if nxt is None:
            self.failure = SimDeadlock(self.describe())
            nxt = self.main
        self.current = nxt
        nxt.sem.release()

    def describe(self):
        s = []
        for p in self.procs:
            s.append(f"{p.name}:{p.state}{'(waiting)' if p.cond else ''}")
        return "no runnable process: " + ", ".join(s)

    def now(self):
        self.clock += timedelta(milliseconds=1)
        return self.clock

    def shutdown(self):
        """After the main activity returned: unwind every parked thread."""
        for p in self.procs:
            if p is self.main or not p.started:
                continue
            if p.thread is not None and p.thread.is_alive():
                p.killed = True
                p.sem.release()
        for p in self.procs:
            if p.thread is not None:
                p.thread.join(timeout=10)
        for q in list(_QUEUES):
            if _QUEUES[q].sched is self:
                del _QUEUES[q]


class SimProcess:
    def __init__(self, sched, target, args, kwargs, name=None):
        self.sched = sched
        self.target = target
        self.args = args
        self.kwargs = kwargs
        self.sem = threading.Semaphore(0)
        self.state = "new"
        self.started = False
        self.cond = None
        self.sleeping = False
        self.killed = False
        self._exitcode = None
        self.thread = None
        self.error = None
        sched.register(self)
        self.name = name or f"{getattr(target, '__name__', 'proc')}#{self.pid}"

    # -- multiprocessing.Process API ---------------------------------------
    def start(self):
        if self.started:
            raise AssertionError("cannot start a process twice")
        # spawn semantics: what the child gets is what survives pickling
        blob = ForkingPickler.dumps((self.target, self.args, self.kwargs))
        self.payload = bytes(blob)
        self.started = True
        self.state = "ready"
        self.thread = threading.Thread(target=self._run, daemon=True)
        self.thread.start()
        self.sched.point()

    def _run(self):
        self.sem.acquire()
        sched = self.sched
        try:
            if self.killed:
                raise SimKilled()
            target, args, kwargs = pickle.loads(self.payload)
            target(*args, **kwargs)
            self._exitcode = 0
        except SimExit as e:
            self._exitcode = e.code
        except SimKilled:
            if self._exitcode is None:
                self._exitcode = -9
            self.state = "done"
            return
        except (SimDeadlock, SimHang):
            self.state = "done"
            return
        except BaseException as e:  # noqa  - an uncaught exception: exit code 1
            self.error = e
            self._exitcode = 1
        sched.finish(self)

    def after_wake(self):
        if self.killed and self is not self.sched.main:
            raise SimKilled()
        if self is self.sched.main and self.sched.failure is not None:
            f = self.sched.failure
            self.sched.failure = None
            raise f

    @property
    def exitcode(self):
        if self.state != "done":
            return None
        return self._exitcode

    def is_alive(self):
        return self.started and self.state != "done"

    def join(self, timeout=None):
        self.sched.point(cond=lambda: self.state == "done")

    def kill(self):
        if self.state != "done" and self.started:
            self.state = "done"
            self._exitcode = -9
            self.killed = True  # its thread stays parked until shutdown

    terminate = kill

    def close(self):
        pass


class SimQueue:
    def __init__(self, sched, maxsize=0):
        self.sched = sched
        self.maxsize = maxsize
        self.items = []  # pickled payloads
        self.closed_by = set()
        self.qid = id(self)
        self.n_put = 0
        _QUEUES[self.qid] = self

    def __reduce__(self):
        return (_rebuild_queue, (self.qid,))

    def _me(self):
        return self.sched.current

    def put(self, obj, block=True, timeout=None):
        if self._me().pid in self.closed_by:
            raise ValueError(f"Queue {self!r} is closed")
        blob = bytes(ForkingPickler.dumps(obj))
        self.sched.point(cond=(lambda: len(self.items) < self.maxsize) if self.maxsize > 0 else None)
        if self._me().pid in self.closed_by:
            raise ValueError(f"Queue {self!r} is closed")
        self.items.append((self.n_put, blob))
        self.n_put += 1

    def _can_get(self, proc):
        if not self.items:
            return False
        sched = self.sched
        if self is not sched.work_queue or sched.assign is None:
            return True
        idx, blob = self.items[0]
        if idx >= len(sched.assign):
            return True  # poison pills: symmetric
        want = sched.assign[idx]
        if want is None:
            return True
        w = sched.worker_of(proc)
        if w == want:
            return True
        # the designated worker is gone: anybody may take the item
        tgt = sched.worker_proc(want)
        return tgt is None or tgt.state == "done"

    def get(self, block=True, timeout=None):
        me = self._me()
        if me.pid in self.closed_by:
            raise ValueError(f"Queue {self!r} is closed")
        self.sched.point(cond=lambda: self._can_get(me))
        idx, blob = self.items.pop(0)
        if self is self.sched.work_queue:
            self.sched.delivered.append((idx, self.sched.worker_of(me)))
        return pickle.loads(blob)

    def close(self):
        self.closed_by.add(self._me().pid)

    def join_thread(self):
        pass

    def cancel_join_thread(self):
        pass

    def empty(self):
        return not self.items

    def qsize(self):
        return len(self.items)


class SimContext:
    def __init__(self, sched):
        self.sched = sched
        self._n_queues = 0

    def Process(self, group=None, target=None, name=None, args=(), kwargs=None, daemon=None):
        p = SimProcess(self.sched, target, tuple(args), dict(kwargs or {}), name=None)
        if getattr(target, "__name__", "") == "_worker":
            p.worker_id = args[0]
        return p

    def Queue(self, maxsize=0):
        q = SimQueue(self.sched, maxsize)
        if self._n_queues == 0 and self.sched.work_queue is None:
            self.sched.work_queue = q  # parallel_add creates the work queue first
        self._n_queues += 1
        return q


def _worker_of(self, proc):
    return getattr(proc, "worker_id", None)


def _worker_proc(self, wid):
    for p in self.procs:
        if getattr(p, "worker_id", None) == wid:
            return p
    return None


Scheduler.worker_of = _worker_of
Scheduler.worker_proc = _worker_proc


class VirtualDatetime:
    def __init__(self, sched):
        self.sched = sched

    def now(self):
        return self.sched.now()


class Sim:
    """Context manager installing the simulated context into sketchnu.helpers."""

    def __init__(self, choices=(), assign=None, horizon=200000, cpu_count=1):
        self.sched = Scheduler(choices, assign, horizon)
        self.cpu_count = cpu_count  # environment answer of psutil.cpu_count()

    def __enter__(self):
        import logging
        import sketchnu.helpers as H

        self.H = H
        self.saved = (H.get_context, H.sleep, H.datetime, H.psutil)
        n_cpu = self.cpu_count

        class _PS:
            @staticmethod
            def cpu_count(logical=True):
                return n_cpu

        H.psutil = _PS
        ctx = SimContext(self.sched)
        sched = self.sched
        H.get_context = lambda method=None: ctx
        H.sleep = lambda t=0: sched.point(sleeping=True)
        H.datetime = VirtualDatetime(sched)
        lg = logging.getLogger("sketchnu.helpers")
        if not any(isinstance(h, logging.NullHandler) for h in lg.handlers):
            lg.addHandler(logging.NullHandler())
        lg.propagate = False
        return self

    def __exit__(self, *exc):
        H = self.H
        H.get_context, H.sleep, H.datetime, H.psutil = self.saved
        self.sched.shutdown()
        return False
