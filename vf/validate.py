"""Validate MANIFEST.json and evidence/*.json against the given schemas.
Run with the tooling venv:  python3-vt -m vf.validate   (needs jsonschema)"""
import glob
import json
import os
import sys

HERE = os.path.dirname(os.path.dirname(os.path.abspath(__file__)))


def main():
    import jsonschema

    ok = True
    ms = json.load(open("/root/.vp/MANIFEST.schema.json"))
    es = json.load(open("/root/.vp/EVIDENCE.schema.json"))
    m = json.load(open(os.path.join(HERE, "MANIFEST.json")))
    jsonschema.validate(m, ms)
    print("MANIFEST.json valid;", len(m["checks"]), "checks")
    claimed = {c["property_id"] for c in m["checks"]}
    na = {c["property_id"] for c in m.get("not_applicable", [])}
    allp = {json.loads(l)["id"] for l in open(os.path.join(HERE, "properties.jsonl"))}
    if claimed | na != allp or claimed & na:
        print("claimed/not_applicable do not partition the properties", allp - claimed - na, claimed & na)
        ok = False
    for c in m["checks"]:
        p = c["evidence_file"]
        if not os.path.exists(p):
            print("missing evidence", p)
            ok = False
            continue
        e = json.load(open(p))
        try:
            jsonschema.validate(e, es)
        except jsonschema.ValidationError as ex:
            print("INVALID", p, ex.message)
            ok = False
            continue
        if e["level"] != c["level_claimed"]["category"]:
            print("level mismatch", p)
            ok = False
        print(f"{p}: ok tier={e['tier']} level={e['level']} wall={e['wall_s']}s viol={e.get('violations')}")
    return 0 if ok else 1


if __name__ == "__main__":
    sys.exit(main())
