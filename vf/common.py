"""Shared plumbing for all checks: import guard, reporter, evidence, replays,
known findings, JSON encoding of byte strings.

Nothing here decides a property; see vf/checks/*.py.
"""
import hashlib
import json
import os
import sys
import time

VERIF_DIR = os.path.dirname(os.path.dirname(os.path.abspath(__file__)))
# (the two overrides exist only so that mutant experiments do not clobber the
#  evidence of the real tree; registered commands never set them)
EVIDENCE_DIR = os.environ.get("VF_EVIDENCE_DIR") or os.path.join(VERIF_DIR, "evidence")
REPLAY_DIR = os.environ.get("VF_REPLAY_DIR") or os.path.join(VERIF_DIR, "replays")
KNOWN_FINDINGS = os.path.join(VERIF_DIR, "known_findings.json")
# The library under test is /repo's working tree.  VF_REPO exists for the mutant tooling only
# (vf.seeded_tool detect --worktree points it at a scratch worktree holding a seeded change, so
# that /repo itself stays untouched while a long run is using it); registered commands never set it.
REPO = os.environ.get("VF_REPO", "/repo")

U32 = 2**32 - 1
U64 = 2**64 - 1


class MachineryError(Exception):
    """The checking machinery itself is broken (exit code 2)."""


class StopExploration(Exception):
    """Raised by the reporter once enough violations were collected."""


# --------------------------------------------------------------------------
# import guard
# --------------------------------------------------------------------------
_T_IMPORT = [0.0]


def import_sketchnu():
    """Import the library from /repo's working tree (numba compiles the eager
    signatures now, i.e. the working tree is rebuilt for this process)."""
    import warnings

    warnings.filterwarnings("ignore", category=SyntaxWarning)
    # prange kernels run on tiny tables here: 2 threads still exercise the
    # parallel code path without 16 spinning OpenMP threads per process
    os.environ.setdefault("NUMBA_NUM_THREADS", "2")
    os.environ.setdefault("OMP_WAIT_POLICY", "passive")
    t0 = time.time()
    # make sure an installed copy elsewhere can never shadow /repo
    if REPO not in sys.path:
        sys.path.insert(0, REPO)
    import sketchnu  # noqa

    f = os.path.realpath(sketchnu.__file__)
    if not f.startswith(REPO + "/"):
        raise MachineryError(f"sketchnu imported from {f}, not from {REPO}")
    _T_IMPORT[0] = time.time() - t0
    # pristine snapshot of the library's global state (module-level containers, class data
    # attributes), taken before anything ran; explorers and replays reset to it
    from . import bfs

    bfs.globals_state()
    return sketchnu


def quiet_shm():
    """Make shared-memory sketches cheap inside explorers: the modules' sleep()
    becomes a no-op and gc is frozen so that gc.collect() in __del__ has
    nothing to walk.  Semantics of the sketches are unchanged."""
    import gc
    import sketchnu.countmin as cm
    import sketchnu.heavyhitters as hh
    import sketchnu.hyperloglog as hl

    def _nosleep(_t=0):
        return None

    cm.sleep = _nosleep
    hh.sleep = _nosleep
    hl.sleep = _nosleep
    gc.collect()
    gc.freeze()


# --------------------------------------------------------------------------
# JSON helpers (bytes <-> {"$b": hex})
# --------------------------------------------------------------------------
def enc(o, typed=False):
    """JSON-able form.  typed=True (replay files) keeps numpy integer types."""
    import numpy as np

    if isinstance(o, (bytes, bytearray)):
        return {"$b": bytes(o).hex()}
    if isinstance(o, dict):
        return {"$d": [[enc(k, typed), enc(v, typed)] for k, v in o.items()]} if any(
            not isinstance(k, str) for k in o
        ) else {k: enc(v, typed) for k, v in o.items()}
    if isinstance(o, (list, tuple)):
        return [enc(x, typed) for x in o]
    if isinstance(o, np.ndarray):
        return {"$a": o.tolist(), "dtype": str(o.dtype)}
    if isinstance(o, (np.integer,)):
        return {"$n": int(o), "dtype": o.dtype.name} if typed else int(o)
    if isinstance(o, (np.floating,)):
        return float(o)
    if isinstance(o, (np.bool_,)):
        return bool(o)
    return o


def dec(o):
    if isinstance(o, dict):
        if "$b" in o and len(o) == 1:
            return bytes.fromhex(o["$b"])
        if "$d" in o and len(o) == 1:
            return {_hashable(dec(k)): dec(v) for k, v in o["$d"]}
        if "$a" in o:
            import numpy as np

            return np.array(o["$a"], dtype=o["dtype"])
        if "$n" in o and len(o) == 2:
            import numpy as np

            return np.dtype(o["dtype"]).type(o["$n"])
        return {k: dec(v) for k, v in o.items()}
    if isinstance(o, list):
        return [dec(x) for x in o]
    return o


def _hashable(x):
    if isinstance(x, list):
        return tuple(_hashable(y) for y in x)
    return x


_SCRUB = None


def scrub(text):
    """Remove what legitimately differs between two runs of one case: object addresses,
    scratch directory names, shared-memory segment names."""
    global _SCRUB
    import re

    if _SCRUB is None:
        _SCRUB = [(re.compile(r"0x[0-9a-fA-F]{6,}"), "0x..."),
                  (re.compile(r"/dev/shm/vf_[A-Za-z0-9_]+"), "<scratch>"),
                  (re.compile(r"/tmp/vf_[A-Za-z0-9_]+"), "<scratch>"),
                  (re.compile(r"psm_[0-9a-f]{8}"), "psm_...")]
    for rx, rep in _SCRUB:
        text = rx.sub(rep, text)
    return text


def short(o, n=300):
    s = repr(o)
    return s if len(s) <= n else s[: n - 3] + "..."


# --------------------------------------------------------------------------
# reporter
# --------------------------------------------------------------------------
class Reporter:
    """Collects coverage counters, samples and violations for one run."""

    def __init__(self, prop, tier, seed, level, max_violations=3):
        self.prop = prop
        self.tier = tier
        self.seed = seed
        self.level = level
        self.cov = {
            "evaluations": 0,
            "distinct_nontrivial": 0,
            "rule": "",
            "samples": [],
            "exhaustive": True,
        }
        self.assumptions = []
        self.violations = []  # list of (case, message)
        self.known_hits = []  # list of (signature, message)
        self.max_violations = max_violations
        self._nontrivial = set()
        self._outcomes = set()
        self.t0 = time.time()
        self.parts = {}

    # -- counters ---------------------------------------------------------
    def add(self, key, n=1):
        self.cov[key] = self.cov.get(key, 0) + n

    def set(self, key, v):
        self.cov[key] = v

    def evals(self, n=1):
        self.cov["evaluations"] += n

    def nontrivial(self, token):
        """Record a distinct non-trivial case (token must be hashable)."""
        self._nontrivial.add(token)

    def nontrivial_n(self, n):
        """Record n further distinct non-trivial cases counted by the caller
        (used when the caller already deduplicates, e.g. BFS states)."""
        self.cov["_nt_extra"] = self.cov.get("_nt_extra", 0) + n

    def outcome(self, token):
        if len(self._outcomes) < 200000:
            self._outcomes.add(token)

    def sample(self, obj, limit=6):
        if len(self.cov["samples"]) < limit:
            self.cov["samples"].append(enc(obj))

    def part(self, name, **kw):
        """Per-sub-exploration record kept in coverage['parts']."""
        self.parts.setdefault(name, {}).update(enc(kw))

    def not_exhaustive(self, why):
        self.cov["exhaustive"] = False
        self.cov.setdefault("caps_hit", []).append(why)

    def assume(self, text):
        if text not in self.assumptions:
            self.assumptions.append(text)

    # -- violations -------------------------------------------------------
    def violation(self, case, message, signature=None):
        """case: JSON-able dict understood by the check module's replay()."""
        case = dict(case)
        if signature:
            case["signature"] = signature
        self.violations.append((case, message))
        if len(self.violations) >= self.max_violations:
            raise StopExploration()

    def finish(self):
        c = self.cov
        c["distinct_nontrivial"] = len(self._nontrivial) + c.pop("_nt_extra", 0)
        c["distinct_outcomes"] = len(self._outcomes) + c.pop("outcomes_sum", 0)
        if self.parts:
            c["parts"] = self.parts
        return c


# --------------------------------------------------------------------------
# evidence
# --------------------------------------------------------------------------
def write_evidence(rep, n_violations, extra=None):
    os.makedirs(EVIDENCE_DIR, exist_ok=True)
    cov = rep.finish()
    ev = {
        "property_id": rep.prop,
        "tier": rep.tier,
        "seed": int(rep.seed),
        "level": rep.level,
        "coverage": cov,
        "assumptions": rep.assumptions,
        "wall_s": round(time.time() - rep.t0 + _T_IMPORT[0], 3),
        "violations": int(n_violations),
    }
    if extra:
        ev.update(extra)
    _check_evidence_shape(ev)
    path = os.path.join(EVIDENCE_DIR, f"{rep.prop}.json")
    tmp = path + ".tmp"
    with open(tmp, "w") as f:
        json.dump(ev, f, indent=1, default=str)
    os.replace(tmp, path)
    return path


def _check_evidence_shape(ev):
    """Cheap structural self-check mirroring EVIDENCE.schema.json (the full
    schema is checked with jsonschema by `python3-vt -m vf.validate`)."""
    cov = ev["coverage"]
    lvl = ev["level"]
    if lvl in ("exploration", "fault_enumeration"):
        need = ("evaluations", "distinct_nontrivial", "rule", "samples")
    elif lvl == "model_checking":
        need = ("states", "transitions", "traces_validated_against_impl", "samples")
    else:
        need = ()
    for k in need:
        if k not in cov:
            raise MachineryError(f"evidence for {ev['property_id']} lacks coverage.{k}")
    if not cov.get("samples"):
        raise MachineryError("evidence without samples")
    if lvl in ("exploration", "fault_enumeration"):
        if cov["evaluations"] < 1 or cov["distinct_nontrivial"] < 2:
            raise MachineryError("vacuous exploration evidence")
    if lvl == "model_checking":
        if cov["states"] < 1 or cov["transitions"] < 1:
            raise MachineryError("vacuous model-checking evidence")


# --------------------------------------------------------------------------
# known findings
# --------------------------------------------------------------------------
def load_known(prop):
    try:
        with open(KNOWN_FINDINGS) as f:
            kf = json.load(f)
    except FileNotFoundError:
        return {}
    return {e["signature"]: e for e in kf.get("known", []) if e["property"] == prop}


# --------------------------------------------------------------------------
# replay files
# --------------------------------------------------------------------------
def write_replay(prop, module, case, message, observed):
    os.makedirs(REPLAY_DIR, exist_ok=True)
    blob = json.dumps(enc(case, True), sort_keys=True, default=str)
    h = hashlib.sha1(blob.encode()).hexdigest()[:10]
    path = os.path.join(REPLAY_DIR, f"{prop}-{h}.json")
    with open(path, "w") as f:
        json.dump(
            {
                "property": prop,
                "module": module,
                "case": enc(case, True),
                "message": message,
                "observed": enc(observed),
                "how_to_replay": f"cd {VERIF_DIR} && /venv/bin/python -m vf.replay {path}",
            },
            f,
            indent=1,
            default=str,
        )
    return path


def seed_from_env():
    try:
        return int(os.environ.get("VERIF_SEED", "0"))
    except ValueError:
        return 0


def tmpdir():
    """Scratch dir for files written by checks (removed by the caller)."""
    import tempfile

    base = "/dev/shm" if os.path.isdir("/dev/shm") else None
    return tempfile.mkdtemp(prefix="vf_", dir=base)
