"""Pool of SPAWNED worker processes (never forked: numba's omp threading layer
does not survive a fork after a parallel kernel ran).  Workers import sketchnu
from /repo themselves, so every worker runs the current working tree."""
import importlib
import multiprocessing as mp
import os
import traceback

_POOL = [None]


def _init():
    from . import common

    common.import_sketchnu()


def start(n):
    """Start n workers now (they compile sketchnu while the parent does)."""
    if n <= 0:
        return None
    ctx = mp.get_context("spawn")
    _POOL[0] = ctx.Pool(n, initializer=_init)
    return _POOL[0]


def get():
    return _POOL[0]


def _call(job):
    modname, fn, arg = job
    try:
        mod = importlib.import_module(modname)
        return ("ok", getattr(mod, fn)(arg))
    except BaseException as e:  # noqa
        return ("err", f"{type(e).__name__}: {e}\n{traceback.format_exc()}")


def run_tasks(modname, fn, args):
    """Run fn(arg) for every arg; in the pool if one was started, else inline.
    Results are returned in the order of args (deterministic)."""
    from .common import MachineryError

    jobs = [(modname, fn, a) for a in args]
    pool = _POOL[0]
    if pool is None:
        res = [_call(j) for j in jobs]
    else:
        res = pool.map(_call, jobs, chunksize=1)
    out = []
    for tag, val in res:
        if tag == "err":
            raise MachineryError("worker task failed: " + val)
        out.append(val)
    return out


def stop():
    p = _POOL[0]
    if p is not None:
        p.close()
        p.join()
        _POOL[0] = None


class SubReporter:
    """What a worker task hands back: violations + anything the task counted."""

    def __init__(self, seed=0, tier="quick", max_violations=3):
        self.violations = []
        self.max_violations = max_violations
        self.seed = seed
        self.tier = tier

    def violation(self, case, message, signature=None):
        from .common import StopExploration

        case = dict(case)
        if signature:
            case["signature"] = signature
        self.violations.append((case, message))
        if len(self.violations) >= self.max_violations:
            raise StopExploration()
