"""M1 - reference hashes on Python ints, written from the published algorithms
(FastHash by Zilong Tan, MurmurHash3_x86_32 by Austin Appleby), plus the
inverse of fasthash64 on 8-byte keys (key crafting)."""

M64 = (1 << 64) - 1
M32 = (1 << 32) - 1
FH_M = 0x880355F21E6D1965
FH_MIX = 0x2127599BF4325C37
FH_M_INV = pow(FH_M, -1, 1 << 64)
FH_MIX_INV = pow(FH_MIX, -1, 1 << 64)


def fh_mix(h):
    h ^= h >> 23
    h = (h * FH_MIX) & M64
    h ^= h >> 47
    return h


def fh_unmix(h):
    h ^= h >> 47
    h = (h * FH_MIX_INV) & M64
    h ^= h >> 23
    h ^= h >> 46
    return h


def fasthash64(key: bytes, seed: int) -> int:
    n = len(key)
    h = (seed ^ ((n * FH_M) & M64)) & M64
    nb = n // 8
    for i in range(nb):
        v = int.from_bytes(key[8 * i : 8 * i + 8], "little")
        h ^= fh_mix(v)
        h = (h * FH_M) & M64
    tail = key[8 * nb :]
    if tail:
        v = int.from_bytes(tail, "little")
        h ^= fh_mix(v)
        h = (h * FH_M) & M64
    return fh_mix(h)


def fasthash32(key: bytes, seed: int) -> int:
    h = fasthash64(key, seed)
    return (h - (h >> 32)) & M32


def _rotl32(x, r):
    return ((x << r) | (x >> (32 - r))) & M32


def murmur3(key: bytes, seed: int) -> int:
    c1, c2 = 0xCC9E2D51, 0x1B873593
    n = len(key)
    h = seed & M32
    nb = n // 4
    for i in range(nb):
        k = int.from_bytes(key[4 * i : 4 * i + 4], "little")
        k = (k * c1) & M32
        k = _rotl32(k, 15)
        k = (k * c2) & M32
        h ^= k
        h = _rotl32(h, 13)
        h = (h * 5 + 0xE6546B64) & M32
    tail = key[4 * nb :]
    if tail:
        k = int.from_bytes(tail, "little")
        k = (k * c1) & M32
        k = _rotl32(k, 15)
        k = (k * c2) & M32
        h ^= k
    h ^= n
    h ^= h >> 16
    h = (h * 0x85EBCA6B) & M32
    h ^= h >> 13
    h = (h * 0xC2B2AE35) & M32
    h ^= h >> 16
    return h


def craft8(target: int, seed: int) -> bytes:
    """The unique 8-byte key whose fasthash64 with `seed` equals `target`."""
    h1 = fh_unmix(target & M64)
    x = (h1 * FH_M_INV) & M64
    h0 = (seed ^ ((8 * FH_M) & M64)) & M64
    v = fh_unmix(x ^ h0)
    return v.to_bytes(8, "little")


def smhasher_verification(fn, hashbits, seed_mask):
    """SMHasher VerificationTest: hash keys {0},{0,1},...,{0..254} with seed
    256-i, then hash the concatenated little-endian results with seed 0."""
    nbytes = hashbits // 8
    out = bytearray()
    for i in range(256):
        key = bytes(range(i))
        out += (fn(key, (256 - i) & seed_mask)).to_bytes(nbytes, "little")
    final = fn(bytes(out), 0)
    return final & M32
