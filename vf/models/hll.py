"""M3 - HyperLogLog register model over a SET of keys, and M6 - the HLL++
estimator from a register histogram (reads the shipped tables)."""
import math

from . import hashes as M1


def idx_rank(h, p):
    """Register index = low p bits; rank = 1 + leading zeros of the other 64-p bits."""
    idx = h & ((1 << p) - 1)
    bits = h >> p
    rank = (64 - p) - bits.bit_length() + 1
    return idx, rank


def registers(p, seed, keys):
    m = 1 << p
    reg = bytearray(m)
    for k in keys:
        i, r = idx_rank(M1.fasthash64(k, seed), p)
        if r > reg[i]:
            reg[i] = r
    return bytes(reg)


def craft(p, seed, idx, rank, variant=0):
    """8-byte key landing in register idx with the given rank (1..64-p+1).
    variant selects different remaining bits with the same rank."""
    nb = 64 - p
    if rank == nb + 1:
        bits = 0
    else:
        blen = nb - rank + 1  # bit length of `bits`
        top = 1 << (blen - 1)
        low = (0x9E3779B97F4A7C15 * (variant + 1)) & (top - 1) if blen > 1 else 0
        bits = top | low
    h = (bits << p) | idx
    return M1.craft8(h, seed)


def extreme_hashes(p, rank):
    """Smallest and largest `bits` values having the given rank."""
    nb = 64 - p
    if rank == nb + 1:
        return [0]
    blen = nb - rank + 1
    lo = 1 << (blen - 1)
    hi = (1 << blen) - 1
    return [lo, hi] if lo != hi else [lo]


# ---------------------------------------------------------------- M6 estimator
def alpha(m):
    return 0.7213 / (1.0 + 1.079 / m)


def interp(x, xs, ys):
    """numpy.interp semantics (clamped at both ends) in plain Python."""
    n = len(xs)
    if x <= xs[0]:
        return ys[0]
    if x >= xs[n - 1]:
        return ys[n - 1]
    lo, hi = 0, n - 1
    while hi - lo > 1:
        mid = (lo + hi) // 2
        if xs[mid] <= x:
            lo = mid
        else:
            hi = mid
    x0, x1, y0, y1 = xs[lo], xs[lo + 1], ys[lo], ys[lo + 1]
    return y0 + (y1 - y0) * (x - x0) / (x1 - x0)


def estimate(hist, p, tables):
    """hist: {rank: count} incl. rank 0; tables = (threshold, raw[], bias[]).
    Returns (value, branch, info) where info holds the switch quantities."""
    m = 1 << p
    thr, raw, bias = tables
    V = hist.get(0, 0)
    total = math.fsum(c * 2.0 ** (-r) for r, c in hist.items())
    E = alpha(m) * m * m / total
    info = {"raw": E}
    if V > 0:
        lc = m * math.log(m / V)
        info["lc"] = lc
        if lc <= thr:
            return lc, "linear", info
        return E - interp(E, raw, bias), "biascorr-zeros", info
    if E <= 5 * m:
        return E - interp(E, raw, bias), "biascorr", info
    return E, "raw", info
