"""M2 - count-min reference model: true multiplicities per key (uncapped Python
ints) and the collision structure learned by PROBING the real sketch (so no
oracle trusts the hash model).

Theorems used as oracles (conservative update + saturating cell-wise merge):

 lower:  est(k) >= min(true(k), CEIL)
   Every add(k, v) first reads m = min over k's cells and then raises every one
   of k's cells to at least min(m + v, CEIL); other keys' adds never lower a
   cell; merge adds cells, and min_r(a_r + b_r) >= min_r a_r + min_r b_r.
   Induction on events.
 upper:  est(k) <= min_r min(CEIL, sum of true(k') over keys k' whose cell in
         row r is k's cell)
   A cell only grows in an add of a key that owns it, and then to at most
   (old minimum over that key's cells) + v <= (old value of this cell) + v;
   so cell <= sum of multiplicities of its owners; merge adds both sides.
"""
import itertools

U32 = 2**32 - 1


class Probe:
    """Which cell does `key` own in each row - read off the real sketch."""

    def __init__(self, factory, table="cms"):
        self.factory = factory  # () -> empty real sketch of the shape under test
        self.table = table
        self.cache = {}
        self.sk = factory()

    def cols(self, key):
        c = self.cache.get(key)
        if c is None:
            sk = self.sk
            t = getattr(sk, self.table)
            t[...] = 0
            if self.table == "lhh_count":
                sk.lhh[...] = 0
                sk.key_lens[...] = 0
            sk.n_added_records[...] = 0
            sk.add(key, 1)
            t = getattr(sk, self.table)
            cols = []
            for r in range(t.shape[0]):
                nz = t[r].nonzero()[0]
                if len(nz) != 1:
                    raise RuntimeError(
                        f"probe of {key!r}: row {r} has {len(nz)} touched cells (expected 1)"
                    )
                cols.append(int(nz[0]))
            c = self.cache[key] = tuple(cols)
        return c


def pool(seed, extra=()):
    from .hashes import craft8

    salt = seed % 9973
    base = [
        b"",
        b"\x00",
        b"\x00\x00",
        b"\xff\x80\x7f",
        bytes((i * 7 + 1) & 0xFF for i in range(64)),
        b"a",
        b"a\x00",
        craft8(0, 0),
        craft8(2**64 - 1, 1),
    ]
    base += list(extra)
    base += [b"k%d" % (salt * 100 + i) for i in range(40)]
    return base


def choose_alphabet(probe, width, depth, keys, n=3):
    """First n-tuple (in pool order) with a non-trivial collision structure:
    A,B share a cell in some row but (if the shape allows) not in all rows;
    C is collision-free w.r.t. A and B in at least one row (if width > 1)."""
    cols = {k: probe.cols(k) for k in keys}

    def ok(A, B, C):
        ca, cb, cc = cols[A], cols[B], cols[C]
        share = [ca[r] == cb[r] for r in range(depth)]
        if not any(share):
            return False
        if width > 1 and depth > 1 and all(share):
            return False
        if width > 1:
            free = [cc[r] != ca[r] and cc[r] != cb[r] for r in range(depth)]
            if not any(free):
                return False
            if width > 2 or depth > 1:
                # and C should collide with A or B somewhere if the shape allows it
                if depth > 1 and all(free):
                    return False
        return True

    for trip in itertools.combinations(range(len(keys)), 3):
        for perm in itertools.permutations(trip):
            A, B, C = (keys[i] for i in perm)
            if ok(A, B, C):
                return [A, B, C][:n]
    # fall back to any pair that collides
    for A, B, C in itertools.permutations(keys, 3):
        if any(cols[A][r] == cols[B][r] for r in range(depth)):
            return [A, B, C][:n]
    return list(keys[:n])


def upper(true, cols_of, key, depth, ceil=U32):
    """min over rows of the summed true counts of all keys sharing key's cell."""
    ck = cols_of(key)
    best = None
    for r in range(depth):
        s = 0
        for k2, v in true.items():
            if v and cols_of(k2)[r] == ck[r]:
                s += v
        if key not in true:
            pass
        best = s if best is None else min(best, s)
    return min(best, ceil)
