"""E1 - explicit-state history explorer over REAL sketch objects.

A *system* is a list of live sketch objects (`work`) plus a reference model
(any hashable value).  A state is (capture of every object's full concrete
state, model).  Breadth-first search: for every state and every enabled event
the objects are restored from the capture, the event is applied to the real
objects, oracles are evaluated, the post-state is captured and deduplicated.

Subclasses describe one property's system:
    init(cfg)            -> (work, model0)           fresh real objects
    events(model, depth) -> iterable of events       (JSON-able tuples)
    apply(work, model, ev) -> (model', problems)     applies ev to real objects
    oracle(work, model)  -> problems                 read-only state invariant
    post_oracle(work, model) -> problems             may mutate (run after capture)
    nontrivial(work, model) -> bool
`problems` is a list of strings (empty = fine).
"""
import pickle
import time
import zlib
from collections import Counter

import numpy as np

from .common import StopExploration
from .sk import SKIP_ALWAYS

_SCALARS = (int, float, str, bool, bytes, type(None))


def capture(sk, skip=()):
    """Immutable, hashable image of the whole object (snapshot == state key)."""
    out = [type(sk).__name__]
    d = sk.__dict__
    for name in sorted(d):
        if name in SKIP_ALWAYS or name in skip:
            continue
        v = d[name]
        if isinstance(v, np.ndarray):
            raw = v.tobytes()
            if len(raw) > 2048:
                # lossless and deterministic, so equality of captures is unchanged
                out.append((name, "z", v.dtype.str, v.shape, zlib.compress(raw, 1)))
            else:
                out.append((name, "a", v.dtype.str, v.shape, raw))
        elif isinstance(v, np.generic):
            out.append((name, "g", v.dtype.str, v.item()))
        elif isinstance(v, _SCALARS):
            out.append((name, "s", v))
        elif isinstance(v, Counter):
            out.append((name, "c", tuple(sorted((k, int(c)) for k, c in v.items()))))
        elif isinstance(v, (tuple, list, dict, set, frozenset)):
            try:
                out.append((name, "p", pickle.dumps(v, 4)))
            except Exception:
                out.append((name, "r", repr(v)))
        else:
            out.append((name, "r", repr(v)))
    return tuple(out)


def restore(sk, cap, skip=()):
    d = sk.__dict__
    names = set()
    for item in cap[1:]:
        name, tag = item[0], item[1]
        names.add(name)
        if tag in ("a", "z"):
            _, _, dt, shape, raw = item
            if tag == "z":
                raw = zlib.decompress(raw)
            cur = d.get(name)
            if (
                isinstance(cur, np.ndarray)
                and cur.dtype.str == dt
                and cur.shape == shape
                and cur.flags.writeable
            ):
                cur[...] = np.frombuffer(raw, dt).reshape(shape)
            else:
                d[name] = np.frombuffer(raw, dt).reshape(shape).copy()
        elif tag == "g":
            d[name] = np.dtype(item[2]).type(item[3])
        elif tag == "s":
            d[name] = item[2]
        elif tag == "c":
            d[name] = Counter(dict(item[2]))
        elif tag == "p":
            d[name] = pickle.loads(item[2])
        # "r": opaque objects are left as they are
    for name in list(d):
        if name not in names and name not in SKIP_ALWAYS and name not in skip:
            del d[name]



# ---------------------------------------------------------------------------
# global state owned by the explorer
# ---------------------------------------------------------------------------
class GlobalState:
    """Mutable state that lives OUTSIDE the sketch objects: module-level containers /
    arrays of the sketchnu modules and data attributes of the sketch classes (a memo, a
    hoisted scratch buffer, a class-level cache).  The pristine library has none that
    changes, so this is dormant there; for a tree that introduces such state it is part
    of every explored state (captured, compared, restored), which keeps the exploration
    faithful and replays deterministic."""

    MODS = ("sketchnu.countmin", "sketchnu.heavyhitters", "sketchnu.hyperloglog",
            "sketchnu.helpers", "sketchnu.hashes")
    CONT = (np.ndarray, dict, list, set, bytearray)

    def __init__(self):
        import importlib
        import inspect

        self.inspect = inspect
        self.mods = [importlib.import_module(m) for m in self.MODS]
        self.pristine = {}
        self.quick = {}  # cheap fingerprints of pristine big arrays
        for slot, owner, name, val in self.slots():
            self.pristine[slot] = pickle.dumps(val, 4)
            if isinstance(val, np.ndarray) and val.flags.c_contiguous:
                self.quick[slot] = (val.shape, val.dtype.str, zlib.adler32(val))

    def _scan(self):
        seen = set()
        insp = self.inspect
        tracked = []
        sizes = []
        for m in self.mods:
            sizes.append((m, len(vars(m))))
            for name, val in list(vars(m).items()):
                if name.startswith("__"):
                    continue
                if isinstance(val, self.CONT) and id(val) not in seen:
                    seen.add(id(val))
                    tracked.append(((m.__name__, name), m, name))
                elif insp.isclass(val) and val.__module__ == m.__name__:
                    sizes.append((val, len(vars(val))))
                    for an, av in list(vars(val).items()):
                        if an.startswith("__") or callable(av) or isinstance(
                                av, (staticmethod, classmethod, property)):
                            continue
                        tracked.append(((m.__name__, val.__name__, an), val, an))
        self._tracked, self._sizes = tracked, sizes

    _tracked = None

    def slots(self):
        if self._tracked is None or any(len(vars(o)) != n for o, n in self._sizes):
            self._scan()
        missing = object()
        for slot, owner, name in self._tracked:
            val = vars(owner).get(name, missing)
            if val is not missing:
                yield slot, owner, name, val

    def capture(self):
        out = []
        present = set()
        for slot, owner, name, val in self.slots():
            present.add(slot)
            q = self.quick.get(slot)
            if q is not None and isinstance(val, np.ndarray) and val.flags.c_contiguous \
                    and (val.shape, val.dtype.str, zlib.adler32(val)) == q:
                continue
            try:
                blob = pickle.dumps(val, 4)
            except Exception:
                blob = repr(val).encode()
            if self.pristine.get(slot) != blob:
                out.append((slot, blob))
        for slot in self.pristine:
            if slot not in present:
                out.append((slot, None))
        return tuple(out)

    def restore(self, gcap):
        cur = dict(self.capture())
        want = dict(gcap)
        if cur == want:
            return
        todo = {slot for slot in set(cur) | set(want) if cur.get(slot, "P") != want.get(slot, "P")}
        for slot, owner, name, val in list(self.slots()):
            if slot not in todo:
                continue
            todo.discard(slot)
            target = want.get(slot, self.pristine.get(slot, "DELETE"))
            if target == "DELETE":
                try:
                    delattr(owner, name)
                except Exception:
                    pass
                continue
            if target is None:
                # the state says "this pristine slot does not exist": remove it
                try:
                    delattr(owner, name)
                except Exception:
                    pass
                continue
            self._put(owner, name, val, pickle.loads(target))
        for slot in todo:
            # slot currently absent but wanted (pristine or state value): re-create it
            target = want.get(slot, self.pristine.get(slot))
            if target is None:
                continue
            owner = self._owner(slot)
            if owner is not None:
                setattr(owner, slot[-1], pickle.loads(target))

    def _owner(self, slot):
        for m in self.mods:
            if m.__name__ == slot[0]:
                return m if len(slot) == 2 else getattr(m, slot[1], None)
        return None

    @staticmethod
    def _put(owner, name, val, new):
        if isinstance(val, np.ndarray) and isinstance(new, np.ndarray) and val.shape == new.shape \
                and val.flags.writeable:
            val[...] = new
        elif isinstance(val, dict) and isinstance(new, dict):
            val.clear()
            val.update(new)
        elif isinstance(val, list) and isinstance(new, list):
            val[:] = new
        elif isinstance(val, set) and isinstance(new, set):
            val.clear()
            val |= new
        else:
            setattr(owner, name, new)


_GLOBALS = [None]


def globals_state():
    if _GLOBALS[0] is None:
        _GLOBALS[0] = GlobalState()
    return _GLOBALS[0]


def _root(a):
    b = a
    while isinstance(getattr(b, "base", None), np.ndarray):
        b = b.base
    return id(b)


def alias_groups(work, skip=()):
    """Arrays of DIFFERENT fields/objects of the system that are one ndarray object or
    views of one ndarray (same ultimate base): shared mutable state between sketches.
    Returned as a sorted tuple of groups of (index, field)."""
    seen = {}
    shared = False
    for i, w in enumerate(work):
        for name, v in w.__dict__.items():
            if type(v) is np.ndarray and name not in SKIP_ALWAYS and name not in skip:
                k = id(v) if v.base is None else _root(v)
                if k in seen:
                    shared = True
                    seen[k].append((i, name))
                else:
                    seen[k] = [(i, name)]
    if not shared:
        return ()
    return tuple(sorted(tuple(g) for g in seen.values() if len(g) > 1))


class E1:
    skip = ()  # fields excluded from capture (per check, argued there)
    name = "e1"

    # ---- to be provided by subclasses ----------------------------------
    def init(self, cfg):
        raise NotImplementedError

    def events(self, model, depth):
        raise NotImplementedError

    def apply(self, work, model, ev):
        raise NotImplementedError

    def oracle(self, work, model):
        return []

    def post_oracle(self, work, model):
        return []

    def nontrivial(self, work, model):
        return True

    def outcome(self, work, model):
        return None

    # ---- engine ---------------------------------------------------------
    def cap_all(self, work):
        return tuple(capture(w, self.skip) for w in work)

    def res_all(self, work, caps, aliases=()):
        self._unshare(work)
        for w, c in zip(work, caps):
            restore(w, c, self.skip)
        self._reshare(work, aliases)

    def _unshare(self, work):
        """Break every array sharing among the live objects (a previous transition
        may have created it) so that restoring one object cannot write into another."""
        for g in alias_groups(work, self.skip):
            for i, name in g[1:]:
                work[i].__dict__[name] = work[i].__dict__[name].copy()

    @staticmethod
    def _reshare(work, aliases):
        """Re-establish the sharing recorded in a state."""
        for g in aliases:
            i0, n0 = g[0]
            for i, name in g[1:]:
                work[i].__dict__[name] = work[i0].__dict__[n0]

    def explore(self, cfg, depth, rep, time_cap=None, state_cap=None, extra_init=None):
        """BFS to `depth` (or fixpoint).  Returns a stats dict."""
        t0 = time.time()
        self.G = globals_state()
        self.G.restore(())
        work, model0 = self.init(cfg)
        self.cfg = cfg
        probs = self.oracle(work, model0)
        s0 = (self.cap_all(work), model0, alias_groups(work, self.skip), self.G.capture(),
              self.ext_capture())
        parent = {s0: None}
        frontier = [s0]
        if extra_init:
            # further start states: each is an event list applied from the initial state
            for evs in extra_init:
                self.res_all(work, s0[0], s0[2])
                self.G.restore(s0[3])
                self.ext_restore(s0[4])
                m = model0
                for ev in evs:
                    m, _ = self.apply(work, m, ev)
                self.oracle(work, m)
                st = (self.cap_all(work), m, alias_groups(work, self.skip), self.G.capture(),
                      self.ext_capture())
                if st not in parent:
                    parent[st] = ("init", list(evs))
                    frontier.append(st)
        stats = dict(states=len(parent), transitions=0, depth=0, closed=False, nontrivial=0,
                     capped=None, problems=0)
        outcomes = set()
        if probs:
            try:
                self._report(rep, cfg, [], probs)
            except StopExploration:
                pass
        try:
            self._search(rep, cfg, work, frontier, parent, stats, outcomes, depth, t0,
                         time_cap, state_cap)
        except StopExploration:
            stats["capped"] = "stopped after collecting violations"
        stats["states"] = len(parent)
        stats["outcomes"] = len(outcomes)
        stats["wall_s"] = round(time.time() - t0, 2)
        # one sample path (the last state discovered)
        last = next(reversed(parent))
        stats["sample_path"] = self.path(parent, last)
        return stats

    def touched(self, ev):
        """Indices of the sketches an event holds a reference to (it cannot
        modify any other object).  None = all."""
        return None

    def ext_capture(self):
        """State of the environment the system talks to (e.g. the bytes of the scratch file
        sketches are saved to).  Hashable; part of every explored state."""
        return None

    def ext_restore(self, x):
        pass

    def active(self, work):
        """(index, sketch) pairs the oracles need to look at for this transition:
        untouched sketches were checked, with the same model, in the parent state."""
        t = self._active
        if t is None:
            return list(enumerate(work))
        return [(i, work[i]) for i in t]

    _active = None

    def _search(self, rep, cfg, work, frontier, parent, stats, outcomes, depth, t0,
                time_cap, state_cap):
        S = len(work)
        G = self.G
        everything = tuple(range(S))
        has_post = type(self).post_oracle is not E1.post_oracle
        for d in range(1, depth + 1):
            nxt = []
            for st in frontier:
                caps, model, aliases, gcap, ext = st
                has_ext = type(self).ext_capture is not E1.ext_capture
                dirty = everything
                live_alias = True  # unknown sharing among the live objects: clean up first
                gdirty = True
                for ev in self.events(model, d):
                    if gdirty or gcap:
                        G.restore(gcap)
                    if has_ext:
                        self.ext_restore(ext)
                    if aliases or live_alias:
                        # shared arrays between sketches: restore everything, faithfully
                        self.res_all(work, caps, aliases)
                    else:
                        for i in dirty:
                            restore(work[i], caps[i], self.skip)
                    self.heal(work, caps)
                    t = self.touched(ev)
                    t = everything if t is None else tuple(sorted(set(t)))
                    if aliases:
                        linked = {i for g in aliases for i, _ in g}
                        if linked & set(t):
                            t = tuple(sorted(set(t) | linked))
                    self._active = t
                    model2, p1 = self.apply(work, model, ev)
                    al2 = alias_groups(work, self.skip)
                    if al2:
                        # an event made two sketches share an array: whatever one of them
                        # does from now on can show up in the other
                        linked = {i for g in al2 for i, _ in g}
                        if linked & set(t):
                            t = tuple(sorted(set(t) | linked))
                            self._active = t
                    g2 = G.capture()
                    if g2 and t != everything:
                        # state outside the objects exists: what any sketch answers may now
                        # depend on it, so every sketch is re-checked, not only the touched ones
                        t = everything
                        self._active = t
                    p2 = self.oracle(work, model2)
                    c2 = list(caps)
                    for i in t:
                        c2[i] = capture(work[i], self.skip)
                    caps2 = tuple(c2)
                    p3 = self.post_oracle(work, model2) if has_post else []
                    self._active = None
                    # oracles that mutate (post_oracle) may have touched any sketch's cache
                    dirty = everything if (has_post or g2) else t
                    live_alias = bool(al2)
                    gdirty = bool(g2) or has_post
                    stats["transitions"] += 1
                    if p1 or p2 or p3:
                        stats["problems"] += 1
                        self._report(rep, cfg, self.path(parent, st) + [ev], p1 + p2 + p3)
                    st2 = (caps2, model2, al2, g2, self.ext_capture() if has_ext else None)
                    if st2 not in parent:
                        parent[st2] = (st, ev)
                        nxt.append(st2)
                        if has_post:
                            for i in t:
                                restore(work[i], caps2[i], self.skip)
                        if self.nontrivial(work, model2):
                            stats["nontrivial"] += 1
                        o = self.outcome(work, model2)
                        if o is not None:
                            outcomes.add(o)
                if time_cap and time.time() - t0 > time_cap:
                    stats["capped"] = f"time cap {time_cap}s hit at depth {d}"
                    break
                if state_cap and len(parent) > state_cap:
                    stats["capped"] = f"state cap {state_cap} hit at depth {d}"
                    break
            if stats["capped"]:
                break
            stats["depth"] = d
            frontier = nxt
            if not frontier:
                stats["closed"] = True
                break

    def heal(self, work, caps):
        """Hook, called after the working objects were restored to a state and before the next
        event: a system may replace a working object whose identity was damaged by an EARLIER
        transition in a way captures cannot express (e.g. a shared-memory sketch whose arrays
        no longer live in its block), so that the damage is reported where it arises - on the
        transition that caused it, which a replay reproduces - and not on unrelated later ones.
        The default does nothing."""
        return

    @staticmethod
    def path(parent, st):
        evs = []
        while True:
            p = parent[st]
            if p is None:
                break
            if p[0] == "init":
                evs.extend(reversed(list(p[1])))
                break
            st, ev = p
            evs.append(ev)
        return evs[::-1]

    def _report(self, rep, cfg, events, problems):
        rep.violation(
            {"engine": "E1", "check": self.name, "cfg": cfg, "events": [list(e) for e in events]},
            f"{self.name} cfg={cfg}: after {len(events)} events: {problems[0]}",
        )

    # ---- replay ---------------------------------------------------------
    def replay(self, cfg, events):
        """Fresh objects, apply the recorded events, evaluate the oracles after
        every step.  Returns (violated, observation)."""
        self.cfg = cfg
        self.G = globals_state()
        self.G.restore(())
        work, model = self.init(cfg)
        probs = self.oracle(work, model)
        if probs:
            return True, {"step": 0, "problems": probs}
        everything = tuple(range(len(work)))
        aliases = alias_groups(work, self.skip)
        has_post = type(self).post_oracle is not E1.post_oracle
        for i, ev in enumerate(events):
            ev = _tup(ev)
            # exactly the per-transition procedure of the explorer (same sketches looked at,
            # same order of reads), so that what was observed there is observed here
            t = self.touched(ev)
            t = everything if t is None else tuple(sorted(set(t)))
            if aliases:
                linked = {j for g in aliases for j, _ in g}
                if linked & set(t):
                    t = tuple(sorted(set(t) | linked))
            self._active = t
            model, p1 = self.apply(work, model, ev)
            al2 = alias_groups(work, self.skip)
            if al2:
                linked = {j for g in al2 for j, _ in g}
                if linked & set(t):
                    t = tuple(sorted(set(t) | linked))
                    self._active = t
            g2 = self.G.capture()
            if g2 and t != everything:
                t = everything
                self._active = t
            p2 = self.oracle(work, model)
            caps = self.cap_all(work)
            ext = self.ext_capture()
            p3 = self.post_oracle(work, model) if has_post else []
            self._active = None
            self.res_all(work, caps, al2)
            self.heal(work, caps)
            self.G.restore(g2)
            self.ext_restore(ext)
            aliases = al2
            if p1 or p2 or p3:
                return True, {"step": i + 1, "event": list(ev), "problems": (p1 + p2 + p3)[:5]}
        return False, {"steps": len(events)}


def in_block(arr, shm):
    """True if the numpy array's memory lies inside the shared-memory block."""
    import numpy as _np

    a = arr.__array_interface__["data"][0]
    tmp = _np.frombuffer(shm.buf, _np.uint8)
    b = tmp.__array_interface__["data"][0]
    del tmp
    return b <= a < b + shm.size


def _tup(x):
    if isinstance(x, list):
        return tuple(_tup(y) for y in x)
    return x


def merge_stats(rep, name, cfg, st):
    """Fold one exploration's stats into the reporter."""
    rep.add("states", st["states"])
    rep.add("transitions", st["transitions"])
    rep.add("traces_validated_against_impl", st["transitions"])
    rep.evals(st["transitions"])
    rep.nontrivial_n(st["nontrivial"])
    rep.add("outcomes_sum", st.get("outcomes", 0))
    rep.set("depth", max(rep.cov.get("depth", 0), st["depth"]))
    if st["capped"]:
        rep.not_exhaustive(f"{name}: {st['capped']} (last complete depth {st['depth']})")
    rep.part(
        name,
        cfg=cfg,
        states=st["states"],
        transitions=st["transitions"],
        depth=st["depth"],
        closed=st["closed"],
        nontrivial_states=st["nontrivial"],
        distinct_outcomes=st.get("outcomes", 0),
        wall_s=st["wall_s"],
    )
    if st.get("sample_path"):
        rep.sample({"system": name, "cfg": cfg, "events": st["sample_path"]})
