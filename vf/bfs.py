"""E1 - explicit-state history explorer over REAL sketch objects.

A *system* is a list of live sketch objects (`work`) plus a reference model
(any hashable value).  A state is (capture of every object's full concrete
state, model).  Breadth-first search: for every state and every enabled event
the objects are restored from the capture, the event is applied to the real
objects, oracles are evaluated, the post-state is captured and deduplicated.

Subclasses describe one property's system:
    init(cfg)            -> (work, model0)           fresh real objects
    events(model, depth) -> iterable of events       (JSON-able tuples)
    apply(work, model, ev) -> (model', problems)     applies ev to real objects
    oracle(work, model)  -> problems                 read-only state invariant
    post_oracle(work, model) -> problems             may mutate (run after capture)
    nontrivial(work, model) -> bool
`problems` is a list of strings (empty = fine).
"""
import time
import zlib
from collections import Counter

import numpy as np

from .common import StopExploration
from .sk import SKIP_ALWAYS

_SCALARS = (int, float, str, bool, bytes, type(None))


def capture(sk, skip=()):
    """Immutable, hashable image of the whole object (snapshot == state key)."""
    out = [type(sk).__name__]
    d = sk.__dict__
    for name in sorted(d):
        if name in SKIP_ALWAYS or name in skip:
            continue
        v = d[name]
        if isinstance(v, np.ndarray):
            raw = v.tobytes()
            if len(raw) > 2048:
                # lossless and deterministic, so equality of captures is unchanged
                out.append((name, "z", v.dtype.str, v.shape, zlib.compress(raw, 1)))
            else:
                out.append((name, "a", v.dtype.str, v.shape, raw))
        elif isinstance(v, np.generic):
            out.append((name, "g", v.dtype.str, v.item()))
        elif isinstance(v, _SCALARS):
            out.append((name, "s", v))
        elif isinstance(v, Counter):
            out.append((name, "c", tuple(sorted((k, int(c)) for k, c in v.items()))))
        else:
            out.append((name, "r", repr(v)))
    return tuple(out)


def restore(sk, cap, skip=()):
    d = sk.__dict__
    names = set()
    for item in cap[1:]:
        name, tag = item[0], item[1]
        names.add(name)
        if tag in ("a", "z"):
            _, _, dt, shape, raw = item
            if tag == "z":
                raw = zlib.decompress(raw)
            cur = d.get(name)
            if (
                isinstance(cur, np.ndarray)
                and cur.dtype.str == dt
                and cur.shape == shape
                and cur.flags.writeable
            ):
                cur[...] = np.frombuffer(raw, dt).reshape(shape)
            else:
                d[name] = np.frombuffer(raw, dt).reshape(shape).copy()
        elif tag == "g":
            d[name] = np.dtype(item[2]).type(item[3])
        elif tag == "s":
            d[name] = item[2]
        elif tag == "c":
            d[name] = Counter(dict(item[2]))
        # "r": opaque objects are left as they are
    for name in list(d):
        if name not in names and name not in SKIP_ALWAYS and name not in skip:
            del d[name]


def alias_groups(work, skip=()):
    """Arrays of DIFFERENT fields/objects of the system that start at the same
    address (one ndarray object, or two views of one buffer): shared mutable
    state between sketches.  Returned as a sorted tuple of groups of (index, field)."""
    seen = {}
    for i, w in enumerate(work):
        for name, v in w.__dict__.items():
            if isinstance(v, np.ndarray) and v.size and name not in SKIP_ALWAYS and name not in skip:
                seen.setdefault(v.__array_interface__["data"][0], []).append((i, name))
    return tuple(sorted(tuple(g) for g in seen.values() if len(g) > 1))


class E1:
    skip = ()  # fields excluded from capture (per check, argued there)
    name = "e1"

    # ---- to be provided by subclasses ----------------------------------
    def init(self, cfg):
        raise NotImplementedError

    def events(self, model, depth):
        raise NotImplementedError

    def apply(self, work, model, ev):
        raise NotImplementedError

    def oracle(self, work, model):
        return []

    def post_oracle(self, work, model):
        return []

    def nontrivial(self, work, model):
        return True

    def outcome(self, work, model):
        return None

    # ---- engine ---------------------------------------------------------
    def cap_all(self, work):
        return tuple(capture(w, self.skip) for w in work)

    def res_all(self, work, caps, aliases=()):
        self._unshare(work)
        for w, c in zip(work, caps):
            restore(w, c, self.skip)
        self._reshare(work, aliases)

    def _unshare(self, work):
        """Break every array sharing among the live objects (a previous transition
        may have created it) so that restoring one object cannot write into another."""
        for g in alias_groups(work, self.skip):
            for i, name in g[1:]:
                work[i].__dict__[name] = work[i].__dict__[name].copy()

    @staticmethod
    def _reshare(work, aliases):
        """Re-establish the sharing recorded in a state."""
        for g in aliases:
            i0, n0 = g[0]
            for i, name in g[1:]:
                work[i].__dict__[name] = work[i0].__dict__[n0]

    def explore(self, cfg, depth, rep, time_cap=None, state_cap=None, extra_init=None):
        """BFS to `depth` (or fixpoint).  Returns a stats dict."""
        t0 = time.time()
        work, model0 = self.init(cfg)
        self.cfg = cfg
        probs = self.oracle(work, model0)
        s0 = (self.cap_all(work), model0, alias_groups(work, self.skip))
        parent = {s0: None}
        frontier = [s0]
        if extra_init:
            # further start states: each is an event list applied from the initial state
            for evs in extra_init:
                self.res_all(work, s0[0], s0[2])
                m = model0
                for ev in evs:
                    m, _ = self.apply(work, m, ev)
                self.oracle(work, m)
                st = (self.cap_all(work), m, alias_groups(work, self.skip))
                if st not in parent:
                    parent[st] = ("init", list(evs))
                    frontier.append(st)
        stats = dict(states=len(parent), transitions=0, depth=0, closed=False, nontrivial=0,
                     capped=None, problems=0)
        outcomes = set()
        if probs:
            try:
                self._report(rep, cfg, [], probs)
            except StopExploration:
                pass
        try:
            self._search(rep, cfg, work, frontier, parent, stats, outcomes, depth, t0,
                         time_cap, state_cap)
        except StopExploration:
            stats["capped"] = "stopped after collecting violations"
        stats["states"] = len(parent)
        stats["outcomes"] = len(outcomes)
        stats["wall_s"] = round(time.time() - t0, 2)
        # one sample path (the last state discovered)
        last = next(reversed(parent))
        stats["sample_path"] = self.path(parent, last)
        return stats

    def touched(self, ev):
        """Indices of the sketches an event holds a reference to (it cannot
        modify any other object).  None = all."""
        return None

    def active(self, work):
        """(index, sketch) pairs the oracles need to look at for this transition:
        untouched sketches were checked, with the same model, in the parent state."""
        t = self._active
        if t is None:
            return list(enumerate(work))
        return [(i, work[i]) for i in t]

    _active = None

    def _search(self, rep, cfg, work, frontier, parent, stats, outcomes, depth, t0,
                time_cap, state_cap):
        S = len(work)
        everything = tuple(range(S))
        has_post = type(self).post_oracle is not E1.post_oracle
        for d in range(1, depth + 1):
            nxt = []
            for st in frontier:
                caps, model, aliases = st
                dirty = everything
                live_alias = True  # unknown sharing among the live objects: clean up first
                for ev in self.events(model, d):
                    if aliases or live_alias:
                        # shared arrays between sketches: restore everything, faithfully
                        self.res_all(work, caps, aliases)
                    else:
                        for i in dirty:
                            restore(work[i], caps[i], self.skip)
                    t = self.touched(ev)
                    t = everything if t is None else tuple(sorted(set(t)))
                    if aliases:
                        linked = {i for g in aliases for i, _ in g}
                        if linked & set(t):
                            t = tuple(sorted(set(t) | linked))
                    self._active = t
                    model2, p1 = self.apply(work, model, ev)
                    al2 = alias_groups(work, self.skip)
                    if al2:
                        # an event made two sketches share an array: whatever one of them
                        # does from now on can show up in the other
                        linked = {i for g in al2 for i, _ in g}
                        if linked & set(t):
                            t = tuple(sorted(set(t) | linked))
                            self._active = t
                    p2 = self.oracle(work, model2)
                    c2 = list(caps)
                    for i in t:
                        c2[i] = capture(work[i], self.skip)
                    caps2 = tuple(c2)
                    p3 = self.post_oracle(work, model2) if has_post else []
                    self._active = None
                    dirty = t
                    live_alias = bool(al2)
                    stats["transitions"] += 1
                    if p1 or p2 or p3:
                        stats["problems"] += 1
                        self._report(rep, cfg, self.path(parent, st) + [ev], p1 + p2 + p3)
                    st2 = (caps2, model2, al2)
                    if st2 not in parent:
                        parent[st2] = (st, ev)
                        nxt.append(st2)
                        if has_post:
                            for i in t:
                                restore(work[i], caps2[i], self.skip)
                        if self.nontrivial(work, model2):
                            stats["nontrivial"] += 1
                        o = self.outcome(work, model2)
                        if o is not None:
                            outcomes.add(o)
                if time_cap and time.time() - t0 > time_cap:
                    stats["capped"] = f"time cap {time_cap}s hit at depth {d}"
                    break
                if state_cap and len(parent) > state_cap:
                    stats["capped"] = f"state cap {state_cap} hit at depth {d}"
                    break
            if stats["capped"]:
                break
            stats["depth"] = d
            frontier = nxt
            if not frontier:
                stats["closed"] = True
                break

    @staticmethod
    def path(parent, st):
        evs = []
        while True:
            p = parent[st]
            if p is None:
                break
            if p[0] == "init":
                evs.extend(reversed(list(p[1])))
                break
            st, ev = p
            evs.append(ev)
        return evs[::-1]

    def _report(self, rep, cfg, events, problems):
        rep.violation(
            {"engine": "E1", "check": self.name, "cfg": cfg, "events": [list(e) for e in events]},
            f"{self.name} cfg={cfg}: after {len(events)} events: {problems[0]}",
        )

    # ---- replay ---------------------------------------------------------
    def replay(self, cfg, events):
        """Fresh objects, apply the recorded events, evaluate the oracles after
        every step.  Returns (violated, observation)."""
        self.cfg = cfg
        work, model = self.init(cfg)
        probs = self.oracle(work, model)
        if probs:
            return True, {"step": 0, "problems": probs}
        for i, ev in enumerate(events):
            ev = _tup(ev)
            model, p1 = self.apply(work, model, ev)
            p2 = self.oracle(work, model)
            caps = self.cap_all(work)
            al = alias_groups(work, self.skip)
            p3 = self.post_oracle(work, model)
            self.res_all(work, caps, al)
            if p1 or p2 or p3:
                return True, {"step": i + 1, "event": list(ev), "problems": (p1 + p2 + p3)[:5]}
        return False, {"steps": len(events)}


def _tup(x):
    if isinstance(x, list):
        return tuple(_tup(y) for y in x)
    return x


def merge_stats(rep, name, cfg, st):
    """Fold one exploration's stats into the reporter."""
    rep.add("states", st["states"])
    rep.add("transitions", st["transitions"])
    rep.add("traces_validated_against_impl", st["transitions"])
    rep.evals(st["transitions"])
    rep.nontrivial_n(st["nontrivial"])
    rep.add("outcomes_sum", st.get("outcomes", 0))
    rep.set("depth", max(rep.cov.get("depth", 0), st["depth"]))
    if st["capped"]:
        rep.not_exhaustive(f"{name}: {st['capped']} (last complete depth {st['depth']})")
    rep.part(
        name,
        cfg=cfg,
        states=st["states"],
        transitions=st["transitions"],
        depth=st["depth"],
        closed=st["closed"],
        nontrivial_states=st["nontrivial"],
        distinct_outcomes=st.get("outcomes", 0),
        wall_s=st["wall_s"],
    )
    if st.get("sample_path"):
        rep.sample({"system": name, "cfg": cfg, "events": st["sample_path"]})
