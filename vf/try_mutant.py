"""Apply a patch to /repo, run the given checks (quick tier), revert.

    /venv/bin/python -m vf.try_mutant mutants/x.patch C01 C18 [--tier thorough]

Prints one line per check: exit code, VIOLATION lines, wall time.  /repo is
always restored (git checkout -- .) afterwards.
"""
import os
import subprocess
import sys
import time


def sh(cmd, **kw):
    return subprocess.run(cmd, shell=True, capture_output=True, text=True, **kw)


def main():
    args = sys.argv[1:]
    tier = "quick"
    if "--tier" in args:
        i = args.index("--tier")
        tier = args[i + 1]
        del args[i : i + 2]
    import os
    patch, props = os.path.abspath(args[0]), args[1:]
    st = sh("git -C /repo status --porcelain --untracked-files=no")
    if st.stdout.strip():
        print("refusing: /repo has uncommitted changes:\n" + st.stdout)
        return 2
    r = sh(f"git -C /repo apply {patch}")
    if r.returncode != 0:
        print("patch does not apply:", r.stderr)
        return 2
    rc_all = 0
    try:
        procs = []
        for p in props:
            t0 = time.time()
            procs.append((p, t0, subprocess.Popen(
                f"/venv/bin/python -m vf.run {p} --tier {tier}", shell=True, cwd="/verif",
                stdout=subprocess.PIPE, stderr=subprocess.STDOUT, text=True,
                env=dict(os.environ, VF_EVIDENCE_DIR="/root/scratch/mut_evidence",
                         VF_REPLAY_DIR="/root/scratch/mut_replays"))))
        for p, t0, pr in procs:
            out, _ = pr.communicate()
            viol = [l for l in out.splitlines() if l.startswith(("VIOLATION", "MACHINERY", "KNOWN"))]
            detail = [l for l in out.splitlines() if l.startswith("  ")][:3]
            print(f"{patch} {p}: exit={pr.returncode} wall={time.time()-t0:.0f}s")
            for l in detail + viol:
                print("    " + l[:300])
            if pr.returncode == 0:
                rc_all = 1
    finally:
        sh("git -C /repo checkout -- .")
    return rc_all


if __name__ == "__main__":
    sys.exit(main())
