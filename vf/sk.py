"""Helpers around the real sketch objects: generic snapshot / restore / state
key over __dict__, persistent-state view, constructors by short name."""
import copy
from collections import Counter

import numpy as np

# fields never part of a state key (argued in DESIGN 3.1)
SKIP_ALWAYS = ("args", "rng", "shm", "existing_shm")


def classes():
    from sketchnu.countmin import CountMinLinear, CountMinLog16, CountMinLog8
    from sketchnu.heavyhitters import HeavyHitters
    from sketchnu.hyperloglog import HyperLogLog

    return {
        "linear": CountMinLinear,
        "log16": CountMinLog16,
        "log8": CountMinLog8,
        "hh": HeavyHitters,
        "hll": HyperLogLog,
    }


def make(kind, *args, **kw):
    return classes()[kind](*args, **kw)


def kind_of(sk):
    n = type(sk).__name__
    return {
        "CountMinLinear": "linear",
        "CountMinLog16": "log16",
        "CountMinLog8": "log8",
        "HeavyHitters": "hh",
        "HyperLogLog": "hll",
    }[n]


def snap(sk, skip=()):
    """Copy of every field of the object (arrays copied, the rest deep-copied)."""
    out = {}
    for name, val in sk.__dict__.items():
        if name in SKIP_ALWAYS or name in skip:
            continue
        if isinstance(val, np.ndarray):
            out[name] = val.copy()
        elif isinstance(val, (int, float, str, bool, np.generic, type(None))):
            out[name] = val
        else:
            out[name] = copy.deepcopy(val)
    return out


def restore(sk, s):
    """Write a snapshot back into a (scratch) object of the same class/shape."""
    d = sk.__dict__
    for name, val in s.items():
        if isinstance(val, np.ndarray):
            cur = d.get(name)
            if (
                isinstance(cur, np.ndarray)
                and cur.shape == val.shape
                and cur.dtype == val.dtype
                and cur.flags.writeable
            ):
                np.copyto(cur, val)
            else:
                d[name] = val.copy()
        elif isinstance(val, (int, float, str, bool, np.generic, type(None))):
            d[name] = val
        else:
            d[name] = copy.deepcopy(val)
    # fields that the snapshot does not have but the object grew meanwhile
    for name in list(d):
        if name not in s and name not in SKIP_ALWAYS and name not in ("rand_nums", "rand_ptr"):
            del d[name]


def _canon(val):
    if isinstance(val, np.ndarray):
        return (str(val.dtype), val.shape, val.tobytes())
    if isinstance(val, Counter):
        return tuple(sorted((k, int(v)) for k, v in val.items()))
    if isinstance(val, dict):
        return tuple(sorted((repr(k), _canon(v)) for k, v in val.items()))
    if isinstance(val, np.generic):
        return (type(val).__name__, val.item())
    if isinstance(val, (int, float, str, bool, bytes, type(None))):
        return val
    return repr(val)


def key(sk, skip=()):
    """Canonical, hashable form of the whole concrete object state."""
    items = [type(sk).__name__]
    d = sk.__dict__
    for name in sorted(d):
        if name in SKIP_ALWAYS or name in skip:
            continue
        items.append((name, _canon(d[name])))
    return tuple(items)


PERSIST_ARRAYS = ("cms", "n_added_records", "registers", "lhh", "lhh_count", "key_lens")
PERSIST_PARAMS = (
    "width",
    "depth",
    "uint_maxval",
    "max_count",
    "num_reserved",
    "base",
    "p",
    "seed",
    "m",
    "alpha",
    "threshold",
    "max_key_len",
    "phi",
)


def persist(sk):
    """The state a user can observe / that save() must carry: class, public
    parameters and tables (not scratch buffers, not the query cache)."""
    out = {"class": type(sk).__name__}
    d = sk.__dict__
    for n in PERSIST_PARAMS:
        if n in d:
            v = d[n]
            out[n] = (type(v).__name__, v.item() if isinstance(v, np.generic) else v)
    for n in PERSIST_ARRAYS:
        if n in d:
            a = d[n]
            out[n] = (str(a.dtype), tuple(a.shape), a.tobytes())
    return out


def persist_diff(a, b):
    pa, pb = persist(a), persist(b)
    diffs = []
    for k in sorted(set(pa) | set(pb)):
        if pa.get(k) != pb.get(k):
            diffs.append(k)
    return diffs


def tables(sk):
    """Only the arrays of persist(), as a hashable tuple."""
    d = sk.__dict__
    return tuple((n, d[n].tobytes()) for n in PERSIST_ARRAYS if n in d)


def install_draws(sk, draws):
    """Own the log sketches' randomness: the next len(draws) uniform numbers
    the sketch will consume are exactly `draws` (rest of the batch = 0.5)."""
    sk.rand_nums[:] = 0.5
    n = len(draws)
    if n:
        sk.rand_nums[:n] = draws
    sk.rand_ptr = 0
