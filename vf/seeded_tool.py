"""Tooling for the seeded changes under /verif/seeded/<id>/ (patch.diff, demo.py, meta.json).

  /venv/bin/python -m vf.seeded_tool confirm seeded/<id>
      scratch worktree of /repo (under /tmp): demo passes without the patch, fails with
      it, and the pinned test suite still passes with it.  Writes confirm.json.
  /venv/bin/python -m vf.seeded_tool detect seeded/<id> [--tier quick] [C01 C05 ...]
      applies the patch to /repo, runs the named checks (default: meta.json's property),
      reverts (/repo is restored in any case).  Writes detect.json.
      With --worktree the patch goes into a scratch worktree (/tmp/det_<id>) that the checks are
      pointed at through VF_REPO, /repo is not touched; writes detect_wt.json.
"""
import json
import os
import shutil
import subprocess
import sys
import time

PYT = "/venv/bin/python"


def sh(cmd, **kw):
    return subprocess.run(cmd, shell=True, capture_output=True, text=True, **kw)


def confirm(d, run_tests=True):
    d = os.path.abspath(d)
    name = os.path.basename(d)
    wt = f"/tmp/confirm_{name}"
    sh(f"git -C /repo worktree remove --force {wt}")
    r = sh(f"git -C /repo worktree add -q {wt} HEAD")
    if r.returncode:
        print(r.stderr)
        return 2
    out = {"id": name}
    try:
        env = dict(os.environ, PYTHONPATH=wt)
        demo = os.path.join(d, "demo.py")
        r0 = sh(f"cd {wt} && {PYT} {demo} {wt}", env=env)  # round-8 demos take the tree as argv[1]; older ones ignore it
        out["demo_without_patch"] = {"exit": r0.returncode, "tail": (r0.stdout + r0.stderr)[-400:]}
        ra = sh(f"git -C {wt} apply {os.path.join(d, 'patch.diff')}")
        if ra.returncode:
            out["apply_error"] = ra.stderr
            print(json.dumps(out, indent=1))
            return 2
        r1 = sh(f"cd {wt} && {PYT} {demo} {wt}", env=env)
        out["demo_with_patch"] = {"exit": r1.returncode, "tail": (r1.stdout + r1.stderr)[-600:]}
        if run_tests:
            t0 = time.time()
            rt = sh(f"cd {wt} && {PYT} -m pytest -q -p no:cacheprovider --timeout=900 tests", env=env)
            last = [l for l in rt.stdout.splitlines() if "passed" in l or "failed" in l or "error" in l]
            failed = [l for l in rt.stdout.splitlines() if l.startswith("FAILED")]
            out["tests_with_patch"] = {"exit": rt.returncode, "summary": last[-1] if last else rt.stdout[-300:],
                                       "failed": failed, "wall_s": round(time.time() - t0)}
            if rt.returncode != 0 and failed:
                # the suite's t-tests are unseeded (p = 0.001 each): rerun only the failed ones,
                # three times, to tell a flake from a real failure
                ids = " ".join(l.split()[1] for l in failed)
                again = []
                for _ in range(3):
                    r2 = sh(f"cd {wt} && {PYT} -m pytest -q -p no:cacheprovider --timeout=900 {ids}", env=env)
                    again.append(r2.returncode)
                out["tests_with_patch"]["rerun_of_failed_x3"] = again
                if all(c == 0 for c in again):
                    out["tests_with_patch"]["exit"] = 0
                    out["tests_with_patch"]["note"] = "failed once, passed 3/3 on rerun: unseeded t-test flake"
        out["ok"] = (out["demo_without_patch"]["exit"] == 0 and out["demo_with_patch"]["exit"] != 0
                     and (not run_tests or out["tests_with_patch"]["exit"] == 0))
    finally:
        sh(f"git -C /repo worktree remove --force {wt}")
        shutil.rmtree(wt, ignore_errors=True)
    json.dump(out, open(os.path.join(d, "confirm.json"), "w"), indent=1)
    print(json.dumps(out, indent=1))
    return 0 if out.get("ok") else 1


def detect(d, props, tier, worktree=False):
    d = os.path.abspath(d)
    name = os.path.basename(d)
    mp = os.path.join(d, "meta.json")
    meta = json.load(open(mp)) if os.path.exists(mp) else {"property": name.split("-")[0]}
    props = props or [meta["property"]]
    target = "/repo"
    if worktree:
        # scratch worktree instead of /repo itself (used while a long run is reading /repo)
        target = f"/tmp/det_{name}"
        sh(f"git -C /repo worktree remove --force {target}")
        r = sh(f"git -C /repo worktree add -q {target} HEAD")
        if r.returncode:
            print(r.stderr)
            return 2
    else:
        st = sh("git -C /repo status --porcelain --untracked-files=no")
        if st.stdout.strip():
            print("refusing: /repo has uncommitted changes")
            return 2
    r = sh(f"git -C {target} apply {os.path.join(d, 'patch.diff')}")
    if r.returncode:
        print("patch does not apply:", r.stderr)
        if worktree:
            sh(f"git -C /repo worktree remove --force {target}")
        return 2
    res = {}
    try:
        procs = []
        env = dict(os.environ, VF_EVIDENCE_DIR=f"/root/scratch/mut_evidence/{name}",
                   VF_REPLAY_DIR=f"/root/scratch/mut_replays/{name}")
        os.makedirs(env["VF_EVIDENCE_DIR"], exist_ok=True)
        os.makedirs(env["VF_REPLAY_DIR"], exist_ok=True)
        if worktree:
            env["VF_REPO"] = target
        for p in props:
            procs.append((p, time.time(), subprocess.Popen(
                f"{PYT} -m vf.run {p} --tier {tier}", shell=True, cwd="/verif", env=env,
                stdout=subprocess.PIPE, stderr=subprocess.STDOUT, text=True)))
        for p, t0, pr in procs:
            out, _ = pr.communicate()
            lines = [l.strip() for l in out.splitlines()
                     if l.startswith(("VIOLATION", "MACHINERY", "KNOWN")) or l.startswith("  ")]
            res[p] = {"exit": pr.returncode, "wall_s": round(time.time() - t0),
                      "lines": [l[:300] for l in lines if not l.startswith(("hh-", "linear-", "log"))][:6]}
            print(p, "exit", pr.returncode, f"{time.time()-t0:.0f}s")
            for l in res[p]["lines"][:4]:
                print("    ", l[:200])
    finally:
        if worktree:
            sh(f"git -C /repo worktree remove --force {target}")
            shutil.rmtree(target, ignore_errors=True)
        else:
            sh("git -C /repo checkout -- .")
    path = os.path.join(d, "detect_wt.json" if worktree else "detect.json")
    old = json.load(open(path)) if os.path.exists(path) else {}
    old.setdefault(tier, {}).update(res)
    json.dump(old, open(path, "w"), indent=1)
    return 0


def main():
    a = sys.argv[1:]
    if not a:
        print(__doc__)
        return 2
    if a[0] == "confirm":
        return confirm(a[1], run_tests="--no-tests" not in a)
    if a[0] == "detect":
        tier = "quick"
        rest = a[2:]
        if "--tier" in rest:
            i = rest.index("--tier")
            tier = rest[i + 1]
            del rest[i : i + 2]
        wt = "--worktree" in rest
        if wt:
            rest.remove("--worktree")
        return detect(a[1], rest, tier, wt)
    print(__doc__)
    return 2


if __name__ == "__main__":
    sys.exit(main())
