"""Generates /verif/MANIFEST.json from the table below:  /venv/bin/python -m vf.manifest"""
import json
import os

from .common import VERIF_DIR

PY = "/venv/bin/python"

# property -> (level, technique, text, note, design_ref)
CHECKS = {
    "C01": (
        "model_checking",
        "explicit-state BFS over real CountMinLinear objects (all add/add_ngram/merge incl. self-merge/"
        "save+load histories to a depth bound over a probed colliding alphabet, in memory and in shared "
        "memory) against a reference model, plus an exhaustive sweep of boundary multiplicities x entry "
        "points x integer types on one-key sketches",
        "All histories up to the stated depth of add / add_ngram / merge / save+load events on 2-4 real "
        "sketches of widths 1-4 over a 3-key alphabet chosen by probing for shared counters, with "
        "multiplicities adjacent to and beyond 2^32-1; in every reached state every key's estimate is "
        "compared with the lower bound min(true,2^32-1) and the per-row collision upper bound. Verdict "
        "is 'no violating history within the depth bound over this alphabet', not a proof for all keys.",
        "Trusted: reference model M2 (true counts; collision structure read off the real sketch by "
        "probing); the bound-theorems in vf/models/cm.py. Depth-bounded (search does not close).",
        "DESIGN.md 4 C01",
    ),
    "C02": (
        "model_checking",
        "explicit-state BFS to fixpoint of the closed system of 2-3 real HyperLogLog sketches over a "
        "crafted key alphabet, plus exhaustive rank sweep through the public API",
        "The reachable state space of S real sketches over a crafted alphabet (adjacent/equal ranks on "
        "one register, maximum rank, empty key) under every entry point and every merge (incl. self "
        "and copy) is explored to a fixpoint; in every reachable state the registers equal the "
        "max-rank-over-key-set model byte for byte and query() equals a fresh sketch's. This subsumes "
        "all orders, duplications, batchings, partitions and merge trees over the alphabet. Every rank "
        "of every precision is additionally driven through add().",
        "Trusted: reference hash M1 + register model M3. Alphabet-bounded (5-6 keys); seeds/precisions "
        "from a grid.",
        "DESIGN.md 4 C02",
    ),
    "C03": (
        "model_checking",
        "explicit-state BFS over real HeavyHitters objects (add/add_ngram/merge/save+load histories "
        "over an alphabet of NUL-aliases, all-NUL, empty and over-long keys) against exact true counts",
        "All histories to the depth bound on 2-4 real sketches with widths 1-3 (forced cell sharing) "
        "over an alphabet built around the identity rule (k vs k+NUL, all-NUL, empty, keys longer than "
        "max_key_len sharing a prefix); in every state hh[q] for alphabet keys, aliases and never-added "
        "keys and every pair of query(inf,t) is compared with the exact true count of that identity.",
        "Trusted: model M4 (true count per identity) and theorem T1 (vf/checks/hh_common.py). "
        "Depth- and alphabet-bounded.",
        "DESIGN.md 4 C03",
    ),
    "C04": (
        "model_checking",
        "explicit-state BFS over real HeavyHitters objects with the potential-function lower bound "
        "max_r(2f - W_r) as oracle; all orderings / partitions / merge orders at width 1",
        "Same state graphs as C03 with the lower-bound oracle: hh[x] >= max_r(2f-W_r), presence in "
        "query(inf,t) for t in {0,1,None,bound}, and 'majority key is reported first with >= 2f-N', "
        "evaluated in every reached state; plus all orderings of unit adds in one cell (depth 6-8) and "
        "all partitions/merge orders over 4 sketches.",
        "Trusted: M4 + theorems T2/T3 (potential bound, super-additive under merge; proof sketch in "
        "DESIGN 3.4 / hh_common.py); cell ownership probed on the real sketch. Totals kept < 2^32.",
        "DESIGN.md 4 C04",
    ),
    "C05": (
        "model_checking",
        "edge predicate on every add transition of BFS state graphs of real linear/log8/log16 "
        "count-min sketches; log add events enumerate the environment's draw vectors; plus exhaustive "
        "sweeps of bulk adds (every start value of the reserved range; boundary multiplicities x entry "
        "points x integer types)",
        "Every add transition reachable within the depth bound (from merged and saturated states too) "
        "is checked pre/post: the key's estimate, every other key's estimate, the table diff (<= 1 "
        "counter per row, only the key's cells) and n_added. For log sketches the random draws are "
        "environment answers enumerated exhaustively ({advance,stay}^v for v<=3).",
        "Trusted: probed cell ownership; draws injected through the documented rand_nums/rand_ptr "
        "fields. Depth- and alphabet-bounded; log multiplicities <= 20.",
        "DESIGN.md 4 C05",
    ),
    "C13": (
        "model_checking",
        "explicit-state BFS in which query(k,t) is a state-changing event (candidate cache is part of "
        "the state), interleaved with add/merge/save+load; differential oracle vs a freshly loaded copy; "
        "plus an exhaustive sweep of widths x n_added()/width on the default-threshold rounding edge",
        "All interleavings to the depth bound of add / add_ngram / merge / save+load / query(t) with "
        "t in {None,0,1,2,2^32-1}; at every query event the answer for k in {1,2,3,inf} is checked for "
        "order, distinctness, count == hh[key] >= threshold, first-k consistency, completeness, and "
        "equality with the answer of a freshly saved+loaded copy (so cache-hit and cache-miss paths "
        "after every prefix are covered). Separately, for every width 2..200 (1200 thorough) and every "
        "m = n_added()/width in 1..8 (16), default phi and explicit 1/w: a real one-row sketch with a "
        "key holding exactly m-1 is put through the same oracle with the default threshold.",
        "Trusted: M4; real save/load as the freshness reference. Depth- and alphabet-bounded.",
        "DESIGN.md 4 C13",
    ),
    "C06": (
        "model_checking",
        "exhaustive enumeration of every counter state x configuration with the advance threshold "
        "extracted from the real add() by bit-pattern bisection; exact Markov-chain propagation "
        "(probabilistic model checking of the DTMC read off the implementation); all rand_ptr states; "
        "BFS lower-bound invariant",
        "For every counter value 0..255 (log8, 25 configurations) and 0..65535 (log16) the real "
        "add()'s advance probability is extracted to one ulp and compared with base^-(c-nr) and with "
        "the unbiasedness identity; the exact distribution after N unit adds is propagated from those "
        "thresholds (E[estimate] = N); every rand_ptr value 0..2048 through add and add_ngram shows "
        "that rand_nums[ptr] is consumed, the pointer stored, and that refills are the next blocks of "
        "numba's generator (never recycled); est >= min(true, nr+1) holds in every state of log "
        "history graphs with enumerated draws.",
        "Draws are injected through the documented rand_nums/rand_ptr fields; numba's generator is "
        "seeded through a harness-side jitted np.random.seed. Uniformity of numba's generator itself "
        "is trusted.",
        "DESIGN.md 4 C06",
    ),
    "C17": (
        "model_checking",
        "exhaustive enumeration of register histograms (families around every estimator switch point, "
        "complete for small precisions / all precisions in the thorough tier) through the real query() "
        "against a reference HLL++ estimator",
        "The estimator depends on the registers only through their histogram (checked on shuffled "
        "arrays); histogram families that sweep the number of zero registers across threshold[p], the "
        "raw estimate across 5m, extreme and mixed cases and real key sets are written into a real "
        "sketch for every p in 7..16 and query() is compared (1e-9) with the reference estimator "
        "computed from the shipped tables; either branch is accepted within 1e-9 of a switch point. "
        "Every (precision, branch) pair must be reached. Table sanity identities are checked.",
        "Reference estimator M6 (vf/models/hll.py) written from the HLL++ description; tables read "
        "from hll_constants.py by precision.",
        "DESIGN.md 4 C17",
    ),
    "C07": (
        "exploration",
        "complete enumeration of a fixed deterministic grid (precision x seed x n) through the real "
        "update()/query(), checked against the HLL++ envelope",
        "Every cell of p in 7..16 x 4 seeds (quick; 20-64 in the thorough tier) x a log-spaced n-grid "
        "incl. the regime boundaries is built with deterministic key families and checked: empty -> "
        "0.0 exactly; n small -> estimate <= linear counting of n registers (a theorem); otherwise "
        "within 8 standard errors. It decides the envelope for those cells and catches gross "
        "estimator/table/rank errors; a probabilistic claim over all key sets cannot be decided by "
        "enumeration - the exhaustive statements about the same code are C02 and C17.",
        "Level 'exploration' on purpose. k = 8 standard errors (1.04/sqrt(m)).",
        "DESIGN.md 4 C07",
    ),
    "C14": (
        "exploration",
        "complete enumeration of a fixed key universe (all 1- and 2-byte keys) probed on the real "
        "sketch: per-row and all-row-pair contingency tests with fixed limits; documented bound on "
        "deterministic Zipf streams",
        "The column every key of a 65 792-key universe owns in each of 8 rows is read off the real "
        "sketch at widths 16 and 48 (and a 12-byte-key universe at width 16); every row must be "
        "balanced and ALL 28 row pairs must pass a "
        "contingency test for independence (limits < 1e-12 under the null, identical or bit-sliced "
        "seeding exceeds them by orders of magnitude); the other counter types and depths must use the "
        "same per-row functions; on three deterministic Zipf streams at most exp(-8) of the keys may "
        "exceed true + e*N/width.",
        "Level 'exploration' on purpose: a surrogate for independence over a fixed universe, not a "
        "statement about the hash family.",
        "DESIGN.md 4 C14",
    ),
    "C08": (
        "model_checking",
        "stateless exploration of the real parallel_add under a controlled scheduler (simulated spawn "
        "context): all item->worker assignment vectors, merge-tree sweep for 1..9 workers, "
        "deviation-bounded (<=1, thorough <=2) exploration of all other scheduling points; conformance "
        "replay of a real spawned run",
        "The real helpers code (parallel_add, _fill_queue, _log_worker, _worker, parallel_merging, "
        "_merge_worker, attach_shared_memory) runs in-process; only multiprocessing's Process/Queue, "
        "sleep and the clock are replaced by a scheduler that owns every hand-off and pickles process "
        "arguments like spawn. Every assignment of k items to w workers for all 7 sketch combinations "
        "(+ log8/log16), every 'which workers got nothing' pattern, n_workers 1..9, and every single "
        "deviation from run-to-block are executed; each execution must return and match the "
        "sequential reference (HLL registers, n_added, n_records, C01/C03/C04 bounds). One real "
        "spawned run (thorough: four) is replayed in the simulator and must be bit-identical.",
        "Simulated processes are serialised (one baton); true parallel writes to one block are outside "
        "the property (workers own disjoint blocks). The generator-input clause is known finding F3.",
        "DESIGN.md 3.2, 4 C08",
    ),
    "C19": (
        "fault_enumeration",
        "exhaustive fault enumeration on the real parallel_add under the controlled scheduler: every "
        "per-item fault vector x every assignment; every (worker, item ordinal) death x every "
        "assignment; one real os._exit run compared with its simulated replay",
        "Every element of {ok, raise-before, raise-after}^k x assignments (k<=4, w<=3 quick; k<=5 "
        "thorough) and every single worker death (os._exit model) at every item ordinal x assignments "
        "is one complete execution of the real code. Raising callbacks: the call returns, every other "
        "item's full contribution is present, nothing beyond touched items, n_records counts exactly "
        "the successful items. Death: the call ends with an exception, never with a result, no "
        "deadlock and no hang within the step horizon. A real spawned run with os._exit(3) must end "
        "like its simulated replay.",
        "os._exit is modelled by SimExit (thread ends with exit code 3, no worker-loop cleanup). "
        "Serialised simulated processes.",
        "DESIGN.md 3.2, 4 C19",
    ),
    "C09": (
        "model_checking",
        "exhaustive enumeration of counter pairs through the real merge kernels: all 256x256 log8 "
        "pairs x 20 configurations, log16 bands / all 2^32 pairs, linear boundary pairs, against the "
        "nearest-decoded-value rule",
        "Tables are written directly so that one real merge() evaluates a whole block of (a,b) counter "
        "pairs; every cell is compared with the rule stated in the property (exact sum in the reserved "
        "range, maximum counter at max_count, nearest decoded value otherwise, ties accept either "
        "neighbour), with decode() read off the real sketch. Also b unchanged, bookkeeping summed, "
        "commutativity, identity, monotonicity, linear super-additivity. log8 is complete for 20 "
        "configurations; log16 is complete (2^32 pairs, default configuration) in the thorough tier.",
        "decode() table read through query() on a one-cell sketch; tie window 1e-9; the solver's 1e-6 "
        "tolerance is granted just below max_count.",
        "DESIGN.md 4 C09",
    ),
    "C15": (
        "model_checking",
        "exhaustive enumeration of all ordered pairs of a configuration grid (single-parameter "
        "variants per family, in-memory and shared-memory operands) through the real merge()",
        "Every ordered pair of configurations within each family, both operands non-empty: an "
        "incompatible pair must raise TypeError and leave the full captured state of both operands "
        "unchanged; a compatible pair (incl. heavy hitters differing only in phi) must merge.",
        "Compatibility is decided from the constructor arguments exactly as the property lists them.",
        "DESIGN.md 4 C15",
    ),
    "C10": (
        "model_checking",
        "exhaustive exploration of a history graph per class x configuration; every state is saved and "
        "re-loaded through every loader (shared_memory False/True) with a differential oracle "
        "(equality, merge, one-step bisimulation over all events, save/load chains)",
        "For all five classes and a grid of configurations (width/depth 1, non-default "
        "max_count/num_reserved/phi, seeds >= 2^63, default phi at width 1) every state reachable by "
        "<= D adds (also from a state with n_records != 0) is saved with the real save() and loaded "
        "with the class loader and the module-level load(); the loaded object must be of the same "
        "class with equal parameters/tables/answers, merge with the original like a copy, and evolve "
        "identically under every further event (log sketches: identical installed draws). The "
        "count-min dispatch / rejection matrix is enumerated completely. For shared_memory=True loads a "
        "second handle is attached to the loaded sketch's block and must see the same state.",
        "Differential oracle (the original object is the reference). Grid- and depth-bounded.",
        "DESIGN.md 4 C10",
    ),
    "C12": (
        "model_checking",
        "exhaustive commuting-diagram enumeration from every state of a small history graph: batch / "
        "dict / multiplicity / ngram entry points vs loops of single adds on two real objects, including "
        "start states whose window counters sit at / just below the 2^32-1 ceiling",
        "From every state reachable by <= D adds, for each of the five classes at colliding shapes: "
        "every list over a 3-key alphabet (len <= 3), every dict over the alphabet x values, add(k,v) "
        "for v in {0,1,2,3,7,10^4}, add_ngram(x,n) for EVERY byte string x over 3 bytes of length 0..5 "
        "and every n in 1..len+2, update_ngram lists; both paths must end in the identical full "
        "concrete state (log sketches with the same installed draw batch, rand_ptr compared).",
        "State equality excludes the scratch buffer `buckets` and the installed draw batch. "
        "Alphabet- and depth-bounded.",
        "DESIGN.md 4 C12",
    ),
    "C16": (
        "model_checking",
        "exhaustive enumeration of event histories (each event through one of three handles of one "
        "shared block) replayed on fresh real objects against an in-memory twin, followed by every "
        "handle deletion order",
        "For all five classes and shapes covering every alignment residue of the bookkeeping counters "
        "(table bytes mod 8, heavy-hitter key area mod 4), every event sequence to depth 3 (quick) / 4 "
        "(thorough) - add, add_ngram, merge of an in-memory sketch, merge of one handle into another, "
        "query - is applied through the owner, a view attached by attach_existing_shm and a view "
        "attached by helpers.attach_shared_memory; after every event all three handles and the "
        "in-memory twin must agree on tables, bookkeeping and answers; then the handles are dropped in "
        "every order and /dev/shm is inspected.",
        "Linux /dev/shm semantics; the sketch modules' 0.25 s sleep in __del__ is a no-op during the "
        "enumeration (one history per class is repeated with the real sleep). Depth-bounded.",
        "DESIGN.md 4 C16",
    ),
    "C18": (
        "model_checking",
        "explicit-state BFS near the ceilings of real linear / log8 / log16 / heavy-hitter sketches "
        "with a monotonicity + absorbing-ceiling edge predicate, plus complete enumeration of the "
        "(max_count x num_reserved) constructor grid (incl. the family whose Newton start sits at the "
        "stationary point) and bulk adds far beyond max_count",
        "Histories whose multiplicities land within +-3 of the ceiling and beyond (linear, heavy "
        "hitters), all-advance draws reaching counter 255 (log8), start states written 0-3 below "
        "65535 (log16), merges included: on every transition no estimate is lowered, a key at its "
        "ceiling stays there, a collision-free key is counted exactly min(true,2^32-1). For log8 every "
        "num_reserved 0..254 x 18 max_counts, for log16 a stride (quick) / every num_reserved "
        "(thorough): the constructor raises ValueError or the ceiling decodes to max_count (1e-6).",
        "Depth- and alphabet-bounded BFS; constructor grid complete for log8, complete for log16 only "
        "in the thorough tier. Tolerance 1e-6 relative = the repository's own pytest.approx.",
        "DESIGN.md 4 C18",
    ),
    "C11": (
        "model_checking",
        "exhaustive enumeration of a finite input domain (all byte values x positions x lengths, "
        "boundary seeds, alignments) against a reference model, plus a second interpreter",
        "Every element of a stated finite domain of (function, key, seed) is evaluated on the jitted "
        "implementation and compared with an independent reference model anchored by the SMHasher "
        "verification constants; the byte-position-value sweep covers the whole sign-extension / tail "
        "class exhaustively, and slice views created inside jitted code (offsets 0..16, lengths 0..40, "
        "buffers without NUL bytes) must hash like the equal bytes object. Inputs outside the domain "
        "(longer keys) are covered only through the block/tail structure argument.",
        "Trusted: reference model M1 (vf/models/hashes.py), anchored by the three published SMHasher "
        "verification values; CPython/numba as installed.",
        "DESIGN.md 4 C11",
    ),
    "C20": (
        "fault_enumeration",
        "crash-point enumeration: every byte-offset truncation of every saved file through every loader",
        "Every strict prefix (every byte offset) of the file written by save(), for all five classes, is "
        "fed to the class loader and the module-level load(); each must raise, and the complete file "
        "must load to the saved sketch; each subject is repeated with save() onto a path that already "
        "holds a longer saved file. Complete for the enumerated files; shapes are a small grid.",
        "Truncation = clean prefix. Shapes/contents are a fixed small grid (seed perturbs widths).",
        "DESIGN.md 4 C20",
    ),
}

ALL = [f"C{i:02d}" for i in range(1, 21)]


def build():
    checks = []
    for pid in ALL:
        if pid not in CHECKS:
            continue
        level, technique, text, note, ref = CHECKS[pid]
        checks.append(
            {
                "property_id": pid,
                "quick_cmd": f"{PY} -m vf.run {pid} --tier quick",
                "thorough_cmd": f"{PY} -m vf.run {pid} --tier thorough",
                "evidence_file": f"/verif/evidence/{pid}.json",
                "replay_cmd_template": f"{PY} -m vf.replay {{path}}",
                "engine": "vf",
                "level_claimed": {"category": level, "text": text, "design_ref": ref},
                "level_note": note,
                "technique": technique,
            }
        )
    na = [
        {
            "property_id": pid,
            "reason": "check not built yet in this revision of /verif (planned, see DESIGN.md 4); "
            "nothing is claimed for it",
        }
        for pid in ALL
        if pid not in CHECKS
    ]
    m = {
        "version": 1,
        "setup_cmd": f"{PY} -m compileall -q vf && {PY} -m vf.selftest",
        "hooks": {
            "guard": "SKETCHNU_VERIF",
            "enable": "no source hooks exist: every seam the explorers use is a module attribute "
            "patched from the test side (sketchnu.helpers.get_context / sleep / datetime, the sketch "
            "modules' sleep); SKETCHNU_VERIF is reserved and currently unused",
            "baseline_off_cmd": "cd /repo && /venv/bin/python -m pytest -ra -q -p no:cacheprovider "
            "--timeout=900 --continue-on-collection-errors",
            "source_commits": [],
            "add_only": True,
        },
        "engines": [
            {
                "name": "vf",
                "path": "/verif/vf",
                "serves_properties": [c["property_id"] for c in checks],
                "kind_free_text": "hand-written explicit-state / exhaustive-enumeration explorers in "
                "Python that drive the real (numba-jitted) sketchnu code: E1 history BFS with "
                "reference models, E2 schedule+fault explorer for parallel_add under a simulated "
                "spawn context, E3 exhaustive domain enumerators",
            }
        ],
        "checks": checks,
        "not_applicable": na,
        "notes": "All commands run with cwd=/verif and import sketchnu from /repo's working tree "
        "(numba recompiles at import; no on-disk cache). Exit 2 = machinery error. Fix commits in "
        "/repo: 73a277b (F1), bcebe9a (F2), a6d013d (F4), 5a59a74 (F5); F3 is a known finding "
        "(known_findings.json).",
    }
    if not na:
        del m["not_applicable"]
    return m


def main():
    m = build()
    with open(os.path.join(VERIF_DIR, "MANIFEST.json"), "w") as f:
        json.dump(m, f, indent=1)
    print("MANIFEST.json:", len(m["checks"]), "checks,", len(m.get("not_applicable", [])), "n/a")


if __name__ == "__main__":
    main()
