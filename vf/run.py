"""CLI:  /venv/bin/python -m vf.run <Cxx> --tier quick|thorough

exit 0  property held on everything explored (KNOWN-FINDING lines may be printed)
exit 1  violation, line "VIOLATION property=<id> replay=<path>"
exit 2  the machinery is broken (vacuous run, nondeterministic replay, bad import)
"""
import argparse
import importlib
import json
import os
import sys
import time
import traceback

from . import common
from .common import MachineryError, Reporter, StopExploration


MAX_REPORTED = 5  # VIOLATION lines printed per run (all are counted in the evidence)


def main(argv=None):
    ap = argparse.ArgumentParser()
    ap.add_argument("prop")
    ap.add_argument("--tier", choices=["quick", "thorough"], default=None)
    ap.add_argument("--seed", type=int, default=None)
    a = ap.parse_args(argv)
    prop = a.prop.upper()
    tier = a.tier or os.environ.get("VERIF_TIER") or "quick"
    if tier not in ("quick", "thorough"):
        tier = "quick"
    seed = a.seed if a.seed is not None else common.seed_from_env()

    t0 = time.time()
    try:
        # check modules import sketchnu lazily, so this is cheap; a pool (if the
        # check wants one) is started first so that its workers compile the
        # working tree while this process does
        mod = importlib.import_module(f"vf.checks.{prop.lower()}")
        n_pool = mod.pool_size(tier) if hasattr(mod, "pool_size") else 0
        if n_pool:
            from . import pool as _pool

            _pool.start(min(n_pool, os.cpu_count() or 1))
        common.import_sketchnu()
    except MachineryError as e:
        print(f"MACHINERY-ERROR property={prop}: {e}")
        return 2
    except Exception:
        # a tree that does not import/compile is not something a check can judge
        traceback.print_exc()
        print(f"MACHINERY-ERROR property={prop}: cannot import sketchnu / check module")
        return 2

    rep = Reporter(prop, tier, seed, mod.LEVEL)
    print(f"[{prop}] tier={tier} seed={seed} import={time.time()-t0:.1f}s", flush=True)
    try:
        try:
            mod.run(rep)
        except StopExploration:
            rep.not_exhaustive("stopped after collecting violations")
    except MachineryError as e:
        print(f"MACHINERY-ERROR property={prop}: {e}")
        return 2
    except Exception:
        traceback.print_exc()
        print(f"MACHINERY-ERROR property={prop}: check crashed")
        return 2

    known = common.load_known(prop)
    n_viol = 0
    n_known = 0
    printed_known = set()
    rc = 0
    try:
        for case, msg in rep.violations:
            if n_viol >= MAX_REPORTED:
                break
            # same path as replaying from the file: JSON round trip first
            case = common.dec(json.loads(json.dumps(common.enc(case, True), default=str)))
            from . import bfs as _bfs

            _bfs.globals_state().restore(())
            r1 = mod.replay(case)
            _bfs.globals_state().restore(())
            r2 = mod.replay(case)
            same = common.scrub(json.dumps(common.enc(r1), default=str)) == common.scrub(
                json.dumps(common.enc(r2), default=str))
            if not same:
                raise MachineryError(
                    f"explorer nondeterminism: two replays of one case differ: "
                    f"{common.short(r1)} vs {common.short(r2)} case={common.short(case)}"
                )
            if not r1[0]:
                raise MachineryError(
                    f"violation did not reproduce from a fresh state: {msg} "
                    f"case={common.short(case)}"
                )
            sig = case.get("signature")
            if sig and sig in known:
                if sig not in printed_known:
                    printed_known.add(sig)
                    print(f"KNOWN-FINDING: property={prop} {known[sig]['what']}")
                n_known += 1
                continue
            path = common.write_replay(prop, mod.__name__, case, msg, r1[1])
            print(f"  {msg}")
            print(f"  observed: {common.short(r1[1], 600)}")
            print(f"VIOLATION property={prop} replay={path}")
            n_viol += 1
            rc = 1
    except MachineryError as e:
        print(f"MACHINERY-ERROR property={prop}: {e}")
        return 2

    rep.set("known_findings_hit", n_known)
    if rep.violations:
        # a run that stopped early at violations still describes what it explored
        for case, msg in rep.violations[:2]:
            rep.sample({"violating_case": case, "message": msg}, limit=8)
        if rep.level == "model_checking":
            for k in ("states", "transitions"):
                if not rep.cov.get(k):
                    rep.cov[k] = max(1, rep.cov.get("evaluations", 0), len(rep.violations))
            rep.cov.setdefault("traces_validated_against_impl", 0)
        rep.cov.setdefault("rule", "run stopped early after collecting violations")
        if rep.cov.get("evaluations", 0) < 1:
            rep.cov["evaluations"] = len(rep.violations)
    try:
        path = common.write_evidence(rep, n_viol)
    except MachineryError as e:
        print(f"MACHINERY-ERROR property={prop}: {e}")
        return rc or 2
    c = rep.cov
    summary = {
        k: c[k]
        for k in (
            "states",
            "transitions",
            "evaluations",
            "distinct_nontrivial",
            "distinct_outcomes",
            "exhaustive",
            "depth",
            "closed",
        )
        if k in c
    }
    print(f"[{prop}] {json.dumps(summary)} wall={time.time()-t0:.1f}s evidence={path}")
    if rc == 0:
        print(f"[{prop}] OK")
    return rc


def _main():
    try:
        return main()
    finally:
        from . import pool as _pool

        _pool.stop()


if __name__ == "__main__":
    sys.exit(_main())
