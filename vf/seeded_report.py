"""Collect the results for the seeded changes into seeded/<id>/meta.json and print the
markdown table used in DESIGN.md section 6:   /venv/bin/python -m vf.seeded_report"""
import json
import os
import re

from .common import VERIF_DIR

NEEDS = {
    "C01-A": "merge into a still-empty sketch aliases the two counter tables; a LATER add/merge on either sketch then shows up in the other (multi-step, two objects)",
    "C01-B": "merge of two cells whose sum exceeds 2^32-1 (uint32+uint32 is uint64 under numba, the wrapped-sum test never fires)",
    "C02-A": "query(), then add_ngram/update_ngram changing a register, then query() again on the same object (stale cached estimate)",
    "C02-B": "a key whose upper 64-p hash bits are all zero (the empty key at seed 0, or a crafted 8-byte key)",
    "C03-A": "merge where the same cell holds keys with equal padded bytes but different lengths (k vs k+NUL, all-NUL key vs empty cell)",
    "C03-B": "add_ngram with ngram > max_key_len on a record longer than max_key_len",
    "C04-A": "the zero-length key b'' owning a cell in the sketch passed as merge() argument",
    "C04-B": "query at a higher threshold (or load()), then - with no add in between - query at a lower threshold",
    "C05-A": "linear add whose multiplicity exceeds the remaining head-room below 2^32-1",
    "C05-B": "log add with multiplicity >= 2 on a key whose cells differ (shares one counter with another key) inside the reserved range",
    "C06-A": "log8 + add_ngram: the draw cursor is not stored, every call replays the same draws",
    "C06-B": "counter exactly at num_reserved+1 and a draw in [1/base, 1)",
    "C07-A": "n between 5*2^p and 2^p*ln(2^p) at p >= 13 while some register is still empty (returns linear counting)",
    "C07-B": "p = 16 and the EMPTY sketch (uint16 histogram bin wraps at 65536)",
    "C08-A": "a worker whose items add no keys but return records, merged as right-hand side (n_records lost)",
    "C08-B": "a falsy queue item (0, '', []) is taken for the poison pill: item lost, worker leaves early",
    "C09-A": "counter pairs whose decoded sum falls in the thin window between the value-space and counter-space midpoints",
    "C09-B": "merge() argument with n_added() == 0 but records / non-empty table",
    "C10-A": "log sketch with max_count >= 2^32 (args saved as uint32)",
    "C10-B": "linear load(shared_memory=True) followed by a second handle attached to the block (counters live outside the block)",
    "C11-A": "a key containing an 8-byte-aligned all-zero block",
    "C11-B": "murmur3 called from jitted code on a slice view whose following byte is non-zero, length % 4 != 0",
    "C12-A": "log8 add_ngram whole-key branch (len(key) <= n) with the key's counter beyond num_reserved: cursor not advanced",
    "C12-B": "HeavyHitters.add_ngram with n > max_key_len",
    "C13-A": "three queries without an add in between: T0, T1 > T0, then T0 <= T2 < T1",
    "C13-B": "a non-empty cached answer, then a query whose threshold exceeds every stored count",
    "C14-A": "power-of-two width (row r+1 column is a function of row r column)",
    "C14-B": "keys longer than 8 bytes (double hashing from one 64-bit hash)",
    "C15-A": "two log8 sketches differing only in num_reserved",
    "C15-B": "heavy hitters agreeing on width/depth/max_key_len but with different raw phi argument",
    "C15-C": "log16/log8 .merge(linear): AttributeError instead of TypeError",
    "C16-A": "a shape whose bookkeeping counters are unaligned + a second handle on the block",
    "C16-B": "query through handle X, registers changed through handle Y, query through X again",
    "C17-A": "a zero register together with a raw estimate above 5m",
    "C17-B": "exactly the number of zero registers V* with threshold < m ln(m/V*) < threshold+1",
    "C18-A": "merge of two linear cells whose sum exceeds 2^32-1",
    "C18-B": "log16 max_count right at the counter range (65 327..65 700): Newton exits early, wrong base accepted",
    "C19-A": "callback raises on an item taken by a worker that already succeeded on another item (stale n_recs re-added)",
    "C19-B": "worker dies with a POSITIVE exit status (os._exit(1..)): monitor only reacts to negative codes",
    "C20-A": "truncation inside the last ~13 bytes (zip archive comment appended by save())",
    "C20-B": "save() onto a path that already holds a longer file (no O_TRUNC)",
    "C01-2A": "one-entry read memo in CountMinLinear.query not reset by merge(): read k, merge a sketch holding k, read k again with no other read in between",
    "C01-2B": "class-level save() checkpoint (filename, n_added): two sketches saved to one path; the second save of the first is skipped",
    "C02-2A": "query() cache not cleared by merge(): query, merge, query again",
    "C02-2B": "leading zeros via float log2: a run of >= 49 one-bits below the leading zeros (crafted key)",
    "C03-2A": "candidate set extended (Counter.update ADDS) when the threshold is lowered with nothing added in between; depth >= 2 and unequal row counts",
    "C03-2B": "class-level shared candidate_set Counter: two live sketches, X queried, Y scanned, X (or an empty sketch) queried again",
    "C04-2A": "class-level shared candidate_set Counter (two cooperating sites): another sketch regenerates between two identical queries of this one",
    "C04-2B": "sorted-list memo ignores k: query(small k) then query(larger k) with the same threshold",
    "C05-2A": "running-product probability in _log_counter: a bulk add crossing num_reserved with a draw within 1e-15 of 1",
    "C05-2B": "fast path tests counter + uint16(value): a bulk add with value >= 65536 whose low 16 bits are small",
    "C06-2A": "_log_counter value narrowed to uint32: one bulk add with value >= 2^32 on a log sketch",
    "C06-2B": "random batch hoisted to module scope: two live log sketches share (and re-consume) one batch",
    "C07-2A": "query() cache that update() does not invalidate: query, update(new keys), query",
    "C07-2B": "shared-memory block rounded up to a page: p <= 11, shared_memory=True, beyond the linear-counting regime",
    "C08-2A": "stale n_recs when the callback raises on a worker that already completed an item",
    "C08-2B": "merge processes capped at the physical core count: n_workers >= 2*cores+2 (core count is an environment answer)",
    "C09-2A": "class-level decode table keyed by (max_count, num_reserved) without the counter width: log16 and log8 with the same pair merged in one process",
    "C09-2B": "column-blocked parallel merge with floor division: log merge of width > 4096 and not a multiple of 4096",
    "C10-2A": "load() snaps a phi np.isclose() to 1/width to the default",
    "C10-2B": "query cache reused for any higher threshold: original and loaded copy in different cache states, explicit threshold first",
    "C11-2A": "fasthash32 seed narrowed to uint32: seeds >= 2^32",
    "C11-2B": "murmur3 tail loop reads one byte past a jit-created slice view",
    "C12-2A": "log8 add_ngram whole-key branch drops the advanced cursor",
    "C12-2B": "log add stops counting n_added once saturated: add(k, v) crossing the ceiling vs v single adds (small max_count)",
    "C13-2A": "pruning on a raised threshold without recording it: thresholds low, high, in-between with no add in between",
    "C13-2B": "class-level shared candidate_set Counter: two live sketches / an empty sketch queried after another",
    "C14-2A": "one hash rotated by 8 bits per row: widths sharing a factor with 2^64-1 (3, 5, 17, ...), e.g. 48, 51, 85",
    "C15-2A": "heavy hitters compared by raw args (incl. phi; None vs loaded 1/width)",
    "C15-2B": "log merge compares the float base instead of max_count: neighbouring max_counts >= 2^53 (log16: >= 2^40)",
    "C16-2A": "log16 merge fast path into an empty sketch rebinds the arrays to private copies (shared owner / view detached)",
    "C16-2B": "per-object 'modified' flag instead of the shared n_added stamp: handle X queries, handle Y writes, X queries again",
    "C17-2A": "query() memoised on the SUM of the registers: two states with equal sums queried back to back on one object",
    "C17-2B": "query() cached behind a per-object dirty flag: registers replaced in place on an already queried object",
    "C18-2A": "module-level base cache keyed without the counter width: log16 and log8 built with the same explicit (max_count, num_reserved) in one process",
    "C18-2B": "heavy-hitter add without the 2^32-1 clamp: value > 2^32-1 for a key that does not own its cell wraps",
    "C19-2A": "monitor loop tests 'any still running' before inspecting exit codes: the LAST running worker dies",
    "C19-2B": "the fill process is no longer killed: worker dies while the filler is blocked on the full queue (more entries than 3*n_workers)",
    "C20-2A": "HeavyHitters.load rewrites a non-.npz suffix: truncated file named X.part next to the complete X.npz",
    "C20-2B": "lru_cache in module-level load(): a path loaded successfully, then truncated in place, then loaded again",
    "C01-3A": "shared-memory layout helper rounds the counters' offset DOWN: shared sketch with an odd table size - n_added overlays the last counters",
    "C01-3B": "update() validates its batch with a first pass: a one-shot iterable is exhausted and silently dropped",
    "C02-3A": "_add_ngram's seed narrowed to uint32: seed >= 2^32 together with the n-gram entry point",
    "C02-3B": "HyperLogLog.update() iterates its argument twice: a one-shot iterable is dropped",
    "C03-3A": "merge compares key_lens with itself: cells whose keys differ only in length / trailing NULs",
    "C03-3B": "add_ngram adds a record whose length equals n twice (guard overlap)",
    "C04-3A": "merge skips cells of the argument whose stored key length is 0: the key b'' in the argument",
    "C04-3B": "prefix-only comparison/writes leave stale padding bytes: shorter key displaces a longer one, then merge with a clean copy of the short key",
    "C05-3A": "shared-memory layout helper rounds down (as C01-3A): adds rewrite neighbouring counters / n_added on odd shared shapes",
    "C06-3A": "CountMinLog8.add_ngram no longer stores the draw cursor",
    "C06-3B": "log16 only: conservative update lifts only cells equal to the minimum (bulk add over a larger shared cell)",
    "C07-3A": "alpha computed from the raw constructor argument: p passed as np.uint8/np.int16 overflows the shift",
    "C07-3B": "HyperLogLog.update() drops one-shot iterables",
    "C08-3A": "log16 keeps a tuple of kernel arguments built in the constructor: attach_existing_shm re-points only two attributes, adds through an attached worker are lost",
    "C08-3B": "_fill_queue peeks at the first element: a one-shot iterator loses its first item",
    "C09-3A": "reserved-range fast path decided from the tables' maxima with wrapping uint8 arithmetic: max(a)+max(b) in [256, 256+num_reserved]",
    "C09-3B": "merge returns early when the argument's table is all zero: its n_records is lost",
    "C10-3A": "HyperLogLog.load rejects a register equal to 64-p+1 (the legal maximum) as corrupt",
    "C10-3B": "heavy-hitter save/load normalise the name with Path.with_suffix: names containing a dot without .npz collide",
    "C12-3A": "fast path in _log_counter skips the (always successful) draw at counter == num_reserved for single adds but not inside a bulk add",
    "C12-3B": "HeavyHitters.add_ngram clamps n to max_key_len",
    "C13-3A": "candidate scan visits only cells with key_lens > 0: the key b'' is never reported",
    "C13-3B": "k == 0 is treated like k = None: everything is returned",
    "C14-3A": "power-of-two widths slice one 32-bit hash: log2(width)*depth > 32 (width 32 depth 7+, 64 depth 6+, 128 depth 5+)",
    "C15-3A": "'nothing to merge' shortcut above the compatibility check: argument whose counters all cancelled to 0",
    "C15-3B": "merge adopts min(phi) before the compatibility check: a refused merge changes the receiver's phi",
    "C16-3A": "log16/log8 merge into a still-empty sketch rebinds the arrays (copy fast path): shared owner/view leaves the block",
    "C16-3B": "HyperLogLog.load rebinds registers: load(shared_memory=True) leaves the block empty",
    "C17-3A": "bias correction skipped while the raw estimate is below raw_estimate[0]: band just above the threshold",
    "C17-3B": "uint16 per-rank tally: p = 16 with all 65536 registers equal",
    "C18-3A": "division-free nearest-counter test: a log16 cell at 65535 merged with a zero cell wraps to 0",
    "C18-3B": "HeavyHitters.update(dict) bypasses add()'s clamp: a single value >= 2^32",
    "C19-3A": "error log takes str(exc).splitlines()[0]: an exception without a message kills the worker",
    "C19-3B": "exit code -9 is excused as 'our own kill': a worker killed by SIGKILL goes unnoticed",
    "C20-3A": "save() pre-allocates space for tables >= 1 MiB and never trims: trailing zeros after the archive",
    "C20-3B": "log16 save writes a zip comment that only the log16 loader checks: log8 files load when cut inside the comment",
    "C01-4A": "the EMPTY key arriving through update(list): filter(None, keys) drops every falsy element",
    "C01-4B": "one add / update(dict) with multiplicity exactly 2^32 (guard is `> 2**32`, the jitted kernel truncates to 0)",
    "C02-4A": "merge where the argument holds a key in the LAST register m-1 (merge loops to the mask, not to m)",
    "C02-4B": "a hash with >= 54 one-bits after its leading zeros at p <= 10 (frexp-based leading-zero count rounds up)",
    "C03-4A": "add_ngram with ngram > max_key_len on a document longer than max_key_len (phantom tail windows)",
    "C03-4B": "add(key, 0) / a zero entry in update(dict) for a key that owns its cell: counter jumps to 2^32-1",
    "C04-4A": "merge() argument whose cell is owned by the zero-length key b''",
    "C04-4B": "a shorter key replacing a longer one in a cell: stale tail bytes stay in the key store",
    "C05-4A": "log8/log16 add with multiplicity >= 2^32 (jitted value argument narrowed to uint32)",
    "C05-4B": "log add with multiplicity >= 65536 whose low 16 bits are small while the counter is in the reserved range",
    "C06-4A": "log add with multiplicity >= 2^32",
    "C06-4B": "log8 add_ngram on a document LONGER than n: the draw cursor is not carried from window to window",
    "C07-4A": "n at threshold[p] with linear counting above the threshold but raw estimate below the first table knot (~15% of seeds)",
    "C07-4B": "p = 16 and n within 2% of one knot (72326) of the bias table: one table entry has two digits swapped",
    "C08-4A": "a worker whose items add no heavy-hitter key but return records, merged as right-hand side",
    "C08-4B": "more merge pairs in a round than physical cores (n_workers >= 2*cores+2; cpu_count is an environment answer)",
    "C09-4A": "merge() argument with n_added() == 0 but n_records() > 0",
    "C09-4B": "log merge of two counters whose sum lies in [2^bits, 2^bits + num_reserved] (narrow cast wraps)",
    "C10-4A": "explicit phi within 1e-5 relative of, but not equal to, the default 1/width",
    "C10-4B": "HyperLogLog with a register at the maximum rank 64-p+1: load() rejects the file save() just wrote",
    "C11-4A": "key whose length is not a multiple of 8 and whose tail bytes are all zero",
    "C11-4B": "key with an odd number >= 3 of complete 8-byte blocks (lengths 24-31, 40-47, ...)",
    "C12-4A": "log add with the counter exactly at num_reserved (fast path skips the draw that a unit add consumes)",
    "C12-4B": "HeavyHitters.add_ngram with n > max_key_len",
    "C13-4A": "explicit phi that float32 rounds down (0.7, 0.01), n_added() with phi*n an integer T, a key with count T-1, save/load",
    "C13-4B": "threshold exactly equal to n_added() (width 1 / phi 1.0 / explicit) and a single distinct key",
    "C14-4A": "power-of-two width (rows derived from one digest by one mixing round)",
    "C14-4B": "depth >= 3 and row pairs with gcd(j-i, width) > 1 (double hashing)",
    "C15-4A": "two log sketches whose max_count differ by a small relative amount (bases within 1e-9)",
    "C15-4B": "log16/log8 .merge(linear): AttributeError instead of TypeError (one direction of one type pair)",
    "C16-4A": "owner dropped while a view of its table is referenced only from uncollected cyclic garbage (retry path forgets unlink)",
    "C16-4B": "CountMinLinear.load(shared_memory=True), then a view attached to the block (arrays re-bound away from the segment)",
    "C17-4A": "the one V per precision whose linear-counting value lies in (threshold, threshold+1)",
    "C17-4B": "no zero register and raw estimate in (5m, last table knot] (a 0.05% wide window)",
    "C18-4A": "a log counter at the ceiling merged with an (almost) empty cell, in configurations where the decoded ceiling is a few ulps below max_count",
    "C18-4B": "heavy-hitter add with multiplicity >= 2^32 for a key that does not yet own its cell (wraps modulo 2^32)",
    "C19-4A": "the worker that dies is the LAST one still running (always with n_workers = 1)",
    "C19-4B": "every item's callback raises before touching the count-min / heavy-hitter sketches (all sketches empty at merge time)",
    "C20-4A": "HyperLogLog saved over an existing LONGER file (no truncate): stale tail, thousands of prefixes load",
    "C20-4B": "log16/log8 file cut inside the trailing zip comment",
    "C01-5A": "self-merge (or merge with a view of its own shared block) with a counter >= 2^31: add-then-repair wraps because `other` aliases `self`",
    "C01-5B": "CountMinLinear.load(shared_memory=True) re-binds the arrays: the block stays zero, seen only through a second handle / merge worker",
    "C02-5A": "update_ngram on a shared-memory sketch re-binds `registers` to a private copy: the block never sees the keys",
    "C02-5B": "update_ngram with an EMPTY record in the list (skipped, although a record not longer than n is added whole)",
    "C03-5A": "merge where self and other hold equal padded bytes with different lengths and other's count is larger (length not copied)",
    "C03-5B": "add_ngram / update_ngram with ngram > max_key_len on a document longer than max_key_len",
    "C04-5A": "a shorter key taking over a cell from a longer one (stale tail bytes), then lookup / merge",
    "C04-5B": "add_ngram with ngram > max_key_len and width > 1: column hashed from the untruncated n-gram, key stored truncated",
    "C05-5A": "shared-memory sketch whose table size is not a multiple of 8 bytes (counters' offset rounded DOWN overlays the last cells)",
    "C05-5B": "linear add with a multiplicity >= 2^32 passed as numpy.uint64 / int64 (cap applies to Python ints only)",
    "C06-5A": "log add with multiplicity > 1 on a key that shares some but not all of its cells (only cells equal to the minimum are raised)",
    "C06-5B": "log8 add_ngram whole-key branch with the counter beyond num_reserved: draw cursor not stored",
    "C07-5A": "add_ngram / update_ngram on a sketch attached to a shared block (bound partial keeps the private registers)",
    "C07-5B": "HyperLogLog.load(shared_memory=True), then used through its block (registers re-bound to a private array)",
    "C08-5A": "cms_type='log8' through parallel_add: constructor and attach disagree on the block layout",
    "C08-5B": "a callback that returns its record count as a numpy integer (treated as 'forgot to return', counted as 0)",
    "C09-5A": "merge() argument with n_added() == 0 but n_records() > 0",
    "C09-5B": "log merge fast path decided from the tables' maxima in uint8/uint16 arithmetic (wraps for sums in [2^bits, 2^bits+num_reserved])",
    "C10-5A": "default-phi HeavyHitters: loaded copy carries phi as a float in `args`, merge() now compares `args`",
    "C10-5B": "linear sketch saved with n_added() == 0 but n_records() > 0 (load skips the copy)",
    "C11-5A": "murmur3 called from jitted code on a slice view whose following byte is non-zero, length % 4 != 0",
    "C12-5A": "HeavyHitters.add_ngram with n > max_key_len",
    "C12-5B": "log8 add_ngram whole-key branch with the key's counter beyond num_reserved: cursor not advanced",
    "C13-5A": "two NUL-padded aliases of the same bytes (ab, ab+NUL) resident in different cells: the later-scanned one is skipped",
    "C13-5B": "the empty key b'' resident with a positive count (stored length 0 taken for an unused cell)",
    "C14-5A": "linear sketch with a power-of-two width (row salt XORed into one digest)",
    "C14-5B": "keys longer than 32 bytes (double hashing from one 64-bit digest), visible for row pairs with gcd(j-i, width) > 1",
    "C15-5A": "heavy hitters: one operand went through save/load (its `args` record holds phi as a float), merge() compares `args`",
    "C15-5B": "log16/log8 .merge(linear): the error message reads other.max_count -> AttributeError instead of TypeError",
    "C16-5A": "CountMinLog16.load(shared_memory=True): n_added_records re-bound to a private array, views see 0",
    "C16-5B": "attach_shared_memory drops falsy parameters: an owner with num_reserved = 0 gets a view with the default num_reserved",
    "C17-5A": "query() on a sketch after attach_existing_shm (argument tuple built in the constructor keeps the private registers)",
    "C17-5B": "some register zero AND raw estimate above 5m (bias no longer subtracted there)",
    "C18-5A": "linear self-merge (or merge with a view of its own block) with a counter >= 2^31",
    "C18-5B": "HeavyHitters.update(dict) with a multiplicity >= 2^32 (update bypasses add()'s cap)",
    "C19-5A": "callback raising an exception whose args are not all strings (FileNotFoundError(2, ...), KeyError(5)): the handler itself raises",
    "C19-5B": "the dying worker is the last one still running (n_workers = 1)",
    "C20-5A": "log16/log8 saved over an existing LONGER file (no O_TRUNC)",
    "C20-5B": "HyperLogLog file truncated to exactly 2^p bytes, 128 <= 2^p <= 65536 ('raw register dump' fallback)",
    "C01-6A": "add_ngram, n >= 2, a document in which a byte re-appears exactly n positions later (abca/3, xyxy/2): run-collapsing skips that n-gram",
    "C01-6B": "one add / update(dict) with multiplicity >= 2^32 (cap removed from add(); the jitted uint32 argument truncates)",
    "C02-6A": "a key ending in a NUL byte sent through update(list/dict): np.unique over a bytes array strips trailing NULs",
    "C02-6B": "p <= 15 and a hash whose bits below the leading one are all ones (log2-based leading-zero count rounds up)",
    "C03-6A": "two NUL-padded aliases resident in different cells with different counts: query() groups cells by padded bytes",
    "C03-6B": "update() with a list whose length is an exact multiple of 4096 (chunked pre-aggregation adds the whole list again)",
    "C04-6A": "short key displacing a longer one (stale tail), the same short key with a clean tail in another sketch, then merge",
    "C04-6B": "depth >= 2, a key owning cells in two rows with different counts, the smaller in the later row (buffered fancy-index max)",
    "C05-6A": "linear add with multiplicity >= 2^32 (clamp dropped from add())",
    "C05-6B": "log add of multiplicity >= 2 on a key that shares some but not all cells, shared cell between old minimum and new value",
    "C06-6A": "same as C05-6B (only cells equal to the minimum are raised)",
    "C06-6B": "one log add whose (counter + multiplicity) mod 2^8 / 2^16 is <= num_reserved (fast path on a wrapped sum)",
    "C07-6A": "n at threshold[p], linear counting above the threshold, raw estimate below the first table knot (bias taken as 0)",
    "C07-6B": "n > 5*2^p while a register is still empty (clamped lookup key written back: query() returns exactly 5*2^p)",
    "C08-6A": "linear count-min, a key whose total exceeds 2^32-1 split across two workers (uint32+uint32 is uint64 under numba: wraps)",
    "C08-6B": "a falsy work item (0, empty list) is never queued",
    "C09-6A": "linear merge of tables with width >= 4096 and width % (width // 2048) != 0: the last columns are not merged",
    "C09-6B": "log merge fast path decided from the tables' maxima in uint8/uint16 arithmetic",
    "C10-6A": "log sketch with max_count > 2^53 that is not a double (saved args array promoted to float64 by the appended base)",
    "C10-6B": "CountMinLog16.load on a file written by CountMinLog8 (shared restore helper uses casting='safe')",
    "C11-6A": "fasthash64 of a slice view created in jitted code at an offset not a multiple of 8, length >= 16",
    "C11-6B": "a key containing an 8-byte-aligned all-zero word",
    "C12-6A": "log add with multiplicity >= 2 that crosses num_reserved (one draw skipped compared with single adds)",
    "C12-6B": "HyperLogLog.update with a key ending in NUL (np.unique strips it)",
    "C13-6A": "two NUL-padded aliases resident in different cells (grouped by padded bytes in the vectorised scan)",
    "C13-6B": "explicit threshold > n_added() on a sketch whose whole history is one key (threshold capped at n_added)",
    "C14-6A": "narrow sketches / power-of-two widths, row pairs an even distance apart (double hashing from two hashes)",
    "C14-6B": "depth 5, 6 or 7: rows 4..6 reuse the seeds of rows 0..2",
    "C15-6A": "heavy hitters with different raw phi (default vs loaded / explicit): merge() compares `args`",
    "C15-6B": "log16.merge(log8) with identical explicit max_count AND num_reserved (isinstance check + dtype conversion)",
    "C16-6A": "shared heavy hitters whose key area is not a multiple of 4 bytes: the count table starts 1-3 bytes early",
    "C16-6B": "attached view on a shape with unaligned bookkeeping counters (np.require silently copies them)",
    "C17-6A": "some register zero AND raw estimate above 5m (bias no longer subtracted)",
    "C17-6B": "zero register, linear counting above the threshold, raw estimate below the first knot (negative index wraps)",
    "C18-6A": "linear self-merge (or merge with a handle on its own block) with a counter >= 2^31 (numpy add-then-repair)",
    "C18-6B": "log merge whose combined value exceeds max_count by more than base^(num_reserved+1) (cast wraps past the new guard)",
    "C19-6A": "a raising callback on a worker that already completed an item with a non-zero return (stale n_recs counted again)",
    "C19-6B": "the dying worker is worker 00 (`if bad_worker:` is falsy for index 0)",
    "C20-6A": "HyperLogLog file cut at exactly header+1 bytes (np.copyto broadcasts a single register)",
    "C20-6B": "HeavyHitters file cut 1-8 bytes from the end (unrecognised trailer = 'legacy file', check skipped)",
    "C01-7A": "add(key, 0) / a zero entry in update(dict): new default value=None is normalised with `value or 1`",
    "C03-7A": "two sketches saved side by side under names that differ only after the last dot (shard.0 / shard.1): with_suffix() maps both to one file",
    "C05-7A": "multiplicity exactly 0 (all three count-min classes): `value or 1` turns it into one add",
    "C08-7A": "a callback returning its record count as a numpy integer (isinstance(n_recs, int) fails: counted as 0)",
    "C09-7A": "log merge reaching max_count with a max_count whose low 8/16 bits are not all ones (the ceiling is written as max_count, truncated)",
    "C10-7A": "log sketch with max_count > 2^53 not representable as a double (args saved as float64 with the base appended)",
    "C12-7A": "HeavyHitters.update(dict) holding two distinct long keys that share their first max_key_len bytes (dict re-keyed by the truncated key)",
    "C13-7A": "default threshold on a nearly empty wide sketch (0 < phi*n_added() < 1): resolved twice, becomes floor(phi*n^2)",
    "C16-7A": "log8/log16 owner with a non-default max_count, view made by attach_shared_memory (parameter whitelist forgets max_count)",
    "C01-8A": "numpy in-place merge whose overflow test compares against `other.cms` AFTER the add: s.merge(s) (or owner.merge(attached view)) with a counter >= 2^31",
    "C02-8A": "memoised query() invalidated by a 'register raised' flag that add_ngram takes from the LAST window only: query, add_ngram whose last window is a no-op, query",
    "C03-8A": "add_ngram / update_ngram with ngram > max_key_len on a record longer than max_key_len (ngram clamped before shingling: windows that were never added are counted)",
    "C04-8A": "merge fast path treats key_lens == 0 as 'empty cell': the empty key b'' heavy in a cell of either merge operand",
    "C05-8A": "log sketches, bulk add (v > 1) on a key whose rows are not tied: only counters equal to the old minimum are raised",
    "C06-8A": "running-product probability in _log_counter: inexact at the reserved boundary after a long bulk add, inf for log16 with num_reserved >= ~64 000",
    "C07-8A": "zero registers left AND raw estimate above 5m (n between 5m and m ln m, p >= 13): falls back to linear counting",
    "C08-8A": "a worker that received items returning records but adding no keys: its sketch is dropped from the merge tree as 'empty' (n_records lost)",
    "C09-8A": "merge(other) with other.n_added() == 0 but n_records() > 0 returns before the bookkeeping is summed (all three classes)",
    "C10-8A": "HeavyHitters.load(shared_memory=True): n_added_records rebound outside the block; only an attached view sees it (0 adds, empty query)",
    "C11-8A": "fasthash64 short-key path for 4-7 byte keys reads int32 words: a byte >= 0x80 at index 3 or at the end sign-extends",
    "C12-8A": "CountMinLinear add_ngram with len(key) > n while a window's counter is saturated at 2^32-1: n_added() grows by the number of windows, not by what was applied",
    "C13-8A": "default phi, a width whose float reciprocal rounds down (49, 98, 103, ...), n_added() an exact multiple of the width: integer n//width threshold is one above floor(phi*n)",
    "C14-8A": "double hashing (h1 + row*h2) % width from one 64-bit hash: keys colliding in two rows collide in all; row pairs correlated at even widths",
    "C15-8A": "log sketches compared by derived `base` instead of max_count: max_count x vs x+1 with x >= 2^40 (log16) give bit-identical bases and merge",
    "C16-8A": "np.require(...'A') copies the attached n_added_records when the table's byte size is not a multiple of 8: view keeps private counters",
    "C17-8A": "no zero register and raw estimate in (5m, last table knot] (0.3 to 77 wide): bias still subtracted",
    "C18-8A": "log merge fast path `max(self)+max(other) <= num_reserved` computed in uint8/uint16: a saturated cell + a small cell wraps",
    "C19-8A": "worker dies with a POSITIVE exit status (os._exit(1)): the monitor now reacts to negative codes only",
    "C20-8A": "count-min files carry cms_type in the zip comment; a cut inside the trailing comment (last 22-24 bytes) still loads",
    "C01-8B": "CountMinLinear.update(dict) calls the jitted kernel directly, skipping add()'s cap: a dict value >= 2^32 is truncated to uint32 (estimate v mod 2^32)",
    "C03-8B": "heavy-hitters merge of a cell holding different keys computes int32(self) - int32(other): a count >= 2^31 turns negative, the wrong key takes the cell",
    "C05-8B": "linear add: clamp / conservative path only for value > 1, everything else takes a hard-coded +1 fast path: multiplicity exactly 0 adds one",
    "C09-8B": "log merges hand prange blocks of 4096 columns, block count width // 4096: the last width % 4096 columns of a table wider than 4096 are never merged",
    "C10-8B": "log save() stores the float base in the integer args array (promoted to float64): max_count above 2^53 comes back changed, merge with the original refused",
    "C12-8B": "HeavyHitters._add_ngram clamps ngram to max_key_len before counting windows: ngram > max_key_len on a key longer than max_key_len",
    "C13-8B": "vectorised generate_candidate_set de-duplicates on the zero-padded key bytes only: stored keys that differ in trailing NULs collapse into one",
    "C19-7A": "the dying worker is worker 00 (`if failed_worker:` is falsy for index 0)",
}


def load(path):
    try:
        return json.load(open(path))
    except Exception:
        return None


def r2_baseline():
    """Exit codes of the round-2 changes against the PREVIOUS version of the checks."""
    out = {}
    for f in ("r2_before.log", "r2_before_b2.log", "r3_before.log", "r3_before_b2.log",
              "r4_before.log", "r5_before.log", "r6_before.log", "r7_first_contact.log", "r8_first_contact.log"):
        p = os.path.join(VERIF_DIR, "seeded", f)
        if os.path.exists(p):
            for line in open(p):
                m = re.match(r"(C\d+-[2345678][AB]) (C\d+) exit=(\d+)", line)
                if m:
                    out[m.group(1)] = int(m.group(3))
    return out


def main():
    base2 = r2_baseline()
    root = os.path.join(VERIF_DIR, "seeded")
    rows = []
    for name in sorted(os.listdir(root)):
        d = os.path.join(root, name)
        if not os.path.isdir(d) or name.startswith("_"):
            continue
        meta = load(os.path.join(d, "meta.json")) or {"property": name.split("-")[0], "id": name}
        conf = load(os.path.join(d, "confirm.json")) or {}
        fa, fb = os.path.join(d, "detect.json"), os.path.join(d, "detect_wt.json")
        newest = max((f for f in (fa, fb) if os.path.exists(f)), key=os.path.getmtime, default=None)
        det = (load(newest) if newest else {}).get("quick", {})
        before = (load(os.path.join(d, "detect_before_strengthening.json")) or {}).get("quick", {})
        prop = meta["property"]
        files = sorted(set(re.findall(r"^\+\+\+ b/(\S+)", open(os.path.join(d, "patch.diff")).read(), re.M)))
        meta.update({
            "breaks_property": prop,
            "files_changed": files,
            "needs_to_manifest": NEEDS.get(name, "see notes.md"),
            "confirmed_by_us": {
                "how": "vf.seeded_tool confirm: scratch worktree of /repo under /tmp (removed afterwards); "
                       "demo.py without the patch, with the patch, then the pinned pytest suite with the patch",
                "demo_exit_without_patch": conf.get("demo_without_patch", {}).get("exit"),
                "demo_exit_with_patch": conf.get("demo_with_patch", {}).get("exit"),
                "tests_with_patch": conf.get("tests_with_patch", {}),
                "ok": conf.get("ok"),
            },
            "detection_quick": {k: v["exit"] for k, v in det.items()},
            "detection_run_against": ("/repo with the patch applied (git apply ... git checkout -- .)"
                                      if newest == fa else
                                      "scratch worktree of /repo HEAD + patch under /tmp, named to the "
                                      "checks through VF_REPO (/repo itself was in use by a long run)"),
            "detection_quick_before_strengthening": {k: v["exit"] for k, v in before.items()} or None,
        })
        meta.pop("ran", None)
        json.dump(meta, open(os.path.join(d, "meta.json"), "w"), indent=1)
        t = conf.get("tests_with_patch", {})
        tests = t.get("summary", "?")
        tests = re.sub(r", \d+ warnings", "", tests)
        tests = re.sub(r" in .*", "", tests)
        if t.get("note"):
            tests += " (flake, 3/3 on rerun)"
        own = det.get(prop, {}).get("exit")
        others = ", ".join(f"{k}:{'yes' if v['exit'] == 1 else 'no' if v['exit'] == 0 else 'err'}"
                           for k, v in det.items() if k != prop)
        b = before.get(prop, {}).get("exit")
        if name in base2:
            b = base2[name]
            meta["detection_quick_before_strengthening"] = {prop: b}
            json.dump(meta, open(os.path.join(d, "meta.json"), "w"), indent=1)
        first = "" if b is None or b == own else {0: "missed", 2: "exit 2"}.get(b, str(b)) + " at first"
        if os.path.exists(os.path.join(d, "SUPERSEDED.md")):
            first = (first + "; " if first else "") + "neutralised by a later fix: commit in /repo, see SUPERSEDED.md"
        rows.append(f"| {name} | {NEEDS.get(name, '')} | {tests} | "
                    f"{'**yes**' if own == 1 else 'NO' if own == 0 else 'exit ' + str(own)} | {others} | {first} |")
    print("| change | needs, in order to manifest | pinned tests with the change | detected by its own check (quick) | other checks | note |")
    print("|---|---|---|---|---|---|")
    for r in rows:
        print(r)


if __name__ == "__main__":
    main()
