"""Run every registered check (quick or thorough) sequentially; print a table.
    /venv/bin/python -m vf.runall [--tier quick|thorough] [--seed N] [C01 C02 ...]"""
import json
import os
import subprocess
import sys
import time

from .common import VERIF_DIR


def main():
    args = sys.argv[1:]
    tier = "quick"
    seed = None
    if "--tier" in args:
        i = args.index("--tier")
        tier = args[i + 1]
        del args[i : i + 2]
    if "--seed" in args:
        i = args.index("--seed")
        seed = args[i + 1]
        del args[i : i + 2]
    m = json.load(open(os.path.join(VERIF_DIR, "MANIFEST.json")))
    rc_all = 0
    for c in m["checks"]:
        pid = c["property_id"]
        if args and pid not in args:
            continue
        cmd = c["quick_cmd"] if tier == "quick" else c["thorough_cmd"]
        env = dict(os.environ)
        if seed is not None:
            env["VERIF_SEED"] = seed
        t0 = time.time()
        r = subprocess.run(cmd, shell=True, cwd=VERIF_DIR, capture_output=True, text=True, env=env)
        lines = [l for l in r.stdout.splitlines() if l.startswith(("VIOLATION", "KNOWN-FINDING", "MACHINERY"))]
        print(f"{pid} {tier} exit={r.returncode} wall={time.time()-t0:.0f}s " + " | ".join(l[:100] for l in lines), flush=True)
        if r.returncode != 0:
            rc_all = 1
            print(r.stdout[-1500:])
            print(r.stderr[-800:])
    return rc_all


if __name__ == "__main__":
    sys.exit(main())
