"""Setup-time self test (fast, does not import sketchnu): the reference models
are sane and the directory layout is usable."""
import json
import os
import sys

from .common import VERIF_DIR, EVIDENCE_DIR, REPLAY_DIR
from .models import hashes as M1


def main():
    assert M1.smhasher_verification(M1.fasthash64, 64, (1 << 64) - 1) == 0xA16231A7
    assert M1.smhasher_verification(M1.fasthash32, 32, (1 << 64) - 1) == 0xE9481AFC
    assert M1.smhasher_verification(M1.murmur3, 32, (1 << 32) - 1) == 0xB0F57EE3
    for t in (0, 1, 2**63, 2**64 - 1, 0x0123456789ABCDEF):
        for s in (0, 5, 2**64 - 1):
            assert M1.fasthash64(M1.craft8(t, s), s) == t
    os.makedirs(EVIDENCE_DIR, exist_ok=True)
    os.makedirs(REPLAY_DIR, exist_ok=True)
    with open(os.path.join(VERIF_DIR, "MANIFEST.json")) as f:
        json.load(f)
    with open(os.path.join(VERIF_DIR, "known_findings.json")) as f:
        json.load(f)
    assert os.path.isdir("/repo/sketchnu")
    print("vf selftest ok")
    return 0


if __name__ == "__main__":
    sys.exit(main())
